// Package litesrv is the simulated lite server: an event-driven state machine executed by the
// simulation driver (no goroutines). It speaks ADNL through sim/adnl and TL through sim/tlref,
// both independent of the repository's code.
package litesrv

import (
	"bytes"
	"crypto/sha256"
	"encoding/binary"
	"fmt"
	"time"

	"verif/sim/adnl"
	"verif/sim/core"
	"verif/sim/tlref"
)

const (
	MagicPing = 0x4d082b9a
	MagicPong = 0xdc69fb03
)

// BlockID derives the ids of masterchain block seqno; every simulated server is on the same chain.
func BlockID(seqno uint32) (root, file [32]byte) {
	root = sha256.Sum256([]byte(fmt.Sprintf("mc-root-%d", seqno)))
	file = sha256.Sum256([]byte(fmt.Sprintf("mc-file-%d", seqno)))
	return
}

// Behaviour is what a plan configures per server.
type Behaviour struct {
	ThinkMinUs, ThinkMaxUs int // time between receiving a query and its answer becoming sendable
	PongDelayUs            int
	DropPermille           int  // never answer a query
	DupPermille            int  // answer twice
	BogusPermille          int  // additionally emit an answer carrying an id nobody asked
	CloseOnHandshake       bool // new connections: read the 256-byte handshake, then close in an orderly way
	JunkPermille           int  // additionally emit an unrelated packet (unknown magic, short answer, unsolicited pong)
	NoPong                 bool
	HoldInfoAfter          int // per connection: answers to getMasterchainInfo after this many are held ...
	HoldInfoMs             int // ... for this long (the pool then refreshes while every head it knows is still 0)
	StaleInfoPermille      int // getMasterchainInfo reports a head a few blocks old (a lagging replica behind one address)
}

// Answer is a packet the server is ready to send; the driver picks among ready answers in any order.
type Answer struct {
	Conn    *core.Conn
	Payload []byte // ADNL packet payload
	ReadyAt time.Duration
	Seq     int
	Label   string
}

type held struct {
	conn    *core.Conn
	qid     []byte
	seqno   uint32
	expires time.Duration
	inner   []byte
	seq     int
}

type sconn struct {
	infoCalls int
	hsBuf     []byte
	sess      *adnl.Session
	fr        *adnl.Framer
	dead      bool
	sent      int
}

// Query is what the server saw, for oracles.
type Query struct {
	Conn *core.Conn
	ID   [32]byte
	Data []byte
	At   time.Duration
}

type Server struct {
	W     *core.World
	Key   adnl.ServerKey
	Sch   tlref.Schema
	Index int
	Host  *core.Host
	Beh   Behaviour

	Head     uint32
	MinHead  uint32
	HeadLog  []HeadEvent // every head value this server ever reported, with the instant
	pending  []*Answer
	held     []*held
	seq      int
	Queries  int
	Answered int
	Dropped  int
	// Echo answers raw (non liteServer.query) requests with tag|sha256(payload)|counter.
	EchoCounter int
	extraDelay  time.Duration // set by an answer builder: this answer becomes sendable later
	// DupNext, when non-zero, makes the next answer go out with this many extra copies. One-shot.
	DupNext int
	// GarbageFromClient: framing errors on connections whose client-to-server stream was not altered in transit
	GarbageFromClient []string
	// MinSeqno: lookups below it are answered with "not in db" (the server is not an archive node)
	MinSeqno uint32
	// LieOuterLen, when non-zero, makes the next adnl.message.answer declare this many answer bytes
	// while carrying the real (shorter) ones. One-shot.
	LieOuterLen int
	// Custom handlers by function id; return nil to fall through.
	Custom func(s *Server, c *core.Conn, fn uint32, r *tlref.R) []byte
	// OnRawQuery observes every adnl query (after framing).
	OnRawQuery func(q Query)
	// Reported records which head each connection was told (C13 register history).
	OnHeadReported func(c *core.Conn, seqno uint32)
}

type HeadEvent struct {
	At    time.Duration
	Seqno uint32
}

func New(w *core.World, key adnl.ServerKey, sch tlref.Schema, index int, head uint32) *Server {
	return &Server{W: w, Key: key, Sch: sch, Index: index, Head: head, MinHead: head}
}

func (s *Server) st(c *core.Conn) *sconn { return c.ServerData.(*sconn) }

func (s *Server) OnAccept(c *core.Conn) { c.ServerData = &sconn{} }

func (s *Server) OnClientClose(c *core.Conn) {
	if st, ok := c.ServerData.(*sconn); ok {
		st.dead = true
	}
}

func (s *Server) nonce(c *core.Conn, k int) [32]byte {
	return sha256.Sum256([]byte(fmt.Sprintf("n-%d-%s-%d", s.Index, c.Name, k)))
}

func (s *Server) OnBytes(c *core.Conn, b []byte) {
	st := s.st(c)
	if st.dead {
		return
	}
	if st.sess == nil {
		st.hsBuf = append(st.hsBuf, b...)
		if len(st.hsBuf) < 256 {
			return
		}
		sess, err := s.Key.Handshake(st.hsBuf[:256])
		if err != nil {
			st.dead = true
			s.W.Logf("srv%d: handshake rejected on %s: %v", s.Index, c.Name, err)
			c.ServerClose(0)
			return
		}
		if s.Beh.CloseOnHandshake {
			// the server process is shutting down / restarting: it reads the handshake and closes in an orderly way
			st.dead = true
			s.W.Probe("closed-on-handshake")
			s.W.Net.Fired["close-on-handshake"]++
			c.ServerClose(0)
			return
		}
		st.sess = sess
		st.fr = &adnl.Framer{S: sess}
		b = st.hsBuf[256:]
		st.hsBuf = nil
		s.sendNow(c, nil)
		if len(b) == 0 {
			return
		}
	}
	ps, err := st.fr.Feed(b)
	for _, p := range ps {
		s.onPacket(c, p)
	}
	if err != nil {
		st.dead = true
		s.W.Logf("srv%d: framing error on %s: %v", s.Index, c.Name, err)
		s.W.Probe("server-saw-bad-frame")
		if c.FaultsFiredDir(core.C2S) == 0 {
			// nothing altered the client's bytes in transit: the client itself put a malformed frame on the wire
			s.GarbageFromClient = append(s.GarbageFromClient, fmt.Sprintf("%s at %v: %v", c.Name, s.W.Now(), err))
		}
		c.ServerClose(0)
	}
}

func (s *Server) sendNow(c *core.Conn, payload []byte) {
	st := s.st(c)
	if st.sess == nil || st.dead {
		return
	}
	st.sent++
	c.ServerSend(st.sess.Seal(s.nonce(c, st.sent), payload))
}

// Push makes a packet sendable at readyAt; the driver decides when (and in which order) it goes out.
func (s *Server) Push(c *core.Conn, payload []byte, readyAt time.Duration, label string) {
	s.seq++
	s.pending = append(s.pending, &Answer{Conn: c, Payload: payload, ReadyAt: readyAt, Seq: s.seq, Label: label})
	if readyAt > s.W.Now() {
		s.W.WakeAt(readyAt)
	}
}

func (s *Server) think() time.Duration {
	d := s.Beh.ThinkMinUs
	if s.Beh.ThinkMaxUs > s.Beh.ThinkMinUs {
		d += s.W.Ch.Choose(s.Beh.ThinkMaxUs - s.Beh.ThinkMinUs + 1)
	}
	return time.Duration(d) * time.Microsecond
}

func (s *Server) onPacket(c *core.Conn, p []byte) {
	if len(p) < 4 {
		return
	}
	switch binary.LittleEndian.Uint32(p) {
	case 0x445bab12: // tcp.authentificate nonce:bytes - the optional client authentication: answer with the server's nonce
		h := sha256.Sum256(append([]byte("server-nonce"), p...))
		w := &tlref.W{}
		w.U32(0xe35d4ab6).Bytes(h[:]) // tcp.authentificationNonce nonce:bytes
		s.W.Probe("auth-nonce-sent")
		s.Push(c, w.B, s.W.Now(), "auth-nonce") // part of connecting, not a query: no think time
	case MagicPing:
		if len(p) != 12 || s.Beh.NoPong {
			return
		}
		pong := make([]byte, 12)
		binary.LittleEndian.PutUint32(pong, MagicPong)
		copy(pong[4:], p[4:12])
		s.Push(c, pong, s.W.Now()+time.Duration(s.Beh.PongDelayUs)*time.Microsecond, "pong")
	case s.Sch.ID("adnl.message.query"):
		r := &tlref.R{B: p[4:]}
		qid := append([]byte{}, r.I256()...)
		data := r.Bytes()
		if r.Err != nil {
			s.W.Probe("server-saw-malformed-query")
			return
		}
		s.Queries++
		var id [32]byte
		copy(id[:], qid)
		if s.OnRawQuery != nil {
			s.OnRawQuery(Query{Conn: c, ID: id, Data: data, At: s.W.Now()})
		}
		s.onQuery(c, qid, data)
	}
}

// AnswerPacket builds adnl.message.answer.
func (s *Server) AnswerPacket(qid []byte, answer []byte) []byte {
	w := &tlref.W{}
	w.U32(s.Sch.ID("adnl.message.answer")).I256(qid)
	if s.LieOuterLen != 0 {
		w.BytesLying(s.LieOuterLen, answer, s.LieOuterLen >= 254)
		s.LieOuterLen = 0
		s.W.Probe("lie-outer-answer-length")
		return w.B
	}
	w.Bytes(answer)
	return w.B
}

func (s *Server) permille(p int) bool {
	if p <= 0 {
		return false
	}
	return s.W.Ch.Choose(1000) < p
}

func (s *Server) onQuery(c *core.Conn, qid []byte, data []byte) {
	// liteServer.query data:bytes, possibly prefixed inside by waitMasterchainSeqno
	if len(data) >= 4 && binary.LittleEndian.Uint32(data) == s.Sch.ID("liteServer.query") {
		r := &tlref.R{B: data[4:]}
		inner := r.Bytes()
		if r.Err != nil {
			s.reply(c, qid, s.ErrorAnswer(400, "malformed liteServer.query"))
			return
		}
		if len(inner) >= 12 && binary.LittleEndian.Uint32(inner) == s.Sch.ID("liteServer.waitMasterchainSeqno") {
			seqno := binary.LittleEndian.Uint32(inner[4:])
			timeoutMs := binary.LittleEndian.Uint32(inner[8:])
			rest := inner[12:]
			if s.Head >= seqno {
				s.W.Probe("wait-seqno-immediate")
				s.reply(c, qid, s.liteAnswer(c, rest))
				return
			}
			s.seq++
			h := &held{conn: c, qid: qid, seqno: seqno, inner: rest, expires: s.W.Now() + time.Duration(timeoutMs)*time.Millisecond, seq: s.seq}
			s.held = append(s.held, h)
			s.W.AtAbs(h.expires, fmt.Sprintf("srv%d wait-timeout #%d", s.Index, h.seq), func() { s.expire(h) })
			return
		}
		s.reply(c, qid, s.liteAnswer(c, inner))
		return
	}
	// raw request: echo
	s.EchoCounter++
	h := sha256.Sum256(data)
	ans := append([]byte("ECHO"), h[:]...)
	ans = binary.LittleEndian.AppendUint32(ans, uint32(s.EchoCounter))
	// a request marked EE EE EE EF asks for an answer padded by the number of bytes it names (answers of every size
	// class of the TL bytes encoding: one-byte and four-byte length prefixes, beyond 64 KiB)
	if len(data) >= 12 && data[4] == 0xEE && data[5] == 0xEE && data[6] == 0xEE && data[7] == 0xEF {
		if n := int(binary.LittleEndian.Uint32(data[8:12])); n <= 4<<20 {
			for i := 0; i < n; i++ {
				ans = append(ans, h[i%32]^byte(i>>5))
			}
			s.W.Probe("sized-answer")
		}
	}
	s.reply(c, qid, ans)
}

func (s *Server) expire(h *held) {
	for i, x := range s.held {
		if x == h {
			s.held = append(s.held[:i], s.held[i+1:]...)
			s.W.Probe("wait-seqno-timeout")
			s.reply(h.conn, h.qid, s.ErrorAnswer(652, "timeout"))
			return
		}
	}
}

// SetHead moves this server's masterchain head and releases satisfied long-polls.
func (s *Server) SetHead(seqno uint32) {
	if seqno <= s.Head {
		return
	}
	s.Head = seqno
	keep := s.held[:0]
	var rel []*held
	for _, h := range s.held {
		if s.Head >= h.seqno {
			rel = append(rel, h)
		} else {
			keep = append(keep, h)
		}
	}
	s.held = keep
	for _, h := range rel {
		s.W.Probe("wait-seqno-released")
		s.reply(h.conn, h.qid, s.liteAnswer(h.conn, h.inner))
	}
}

// reply queues the answer (plus planned misbehaviour) for a query.
func (s *Server) reply(c *core.Conn, qid []byte, answer []byte) {
	now := s.W.Now()
	if s.permille(s.Beh.JunkPermille) {
		s.W.Probe("junk-packet")
		s.Push(c, s.junk(qid), now+s.think(), "junk")
	}
	if s.permille(s.Beh.BogusPermille) {
		s.W.Probe("answer-with-unknown-id")
		bogus := sha256.Sum256(append([]byte("bogus"), qid...))
		// half of them are near misses of the id just asked: they share its first 8, 16 or 31 bytes, or all but
		// the first byte (an id is the whole 256 bits)
		if len(qid) == 32 {
			switch s.W.Ch.Choose(8) {
			case 0:
				copy(bogus[:8], qid[:8])
			case 1:
				copy(bogus[:16], qid[:16])
			case 2:
				copy(bogus[:31], qid[:31])
				bogus[31] = qid[31] ^ 0x01
			case 3:
				copy(bogus[1:], qid[1:])
				bogus[0] = qid[0] ^ 0x80
			}
			if !bytes.Equal(bogus[8:], func() []byte { h := sha256.Sum256(append([]byte("bogus"), qid...)); return h[8:] }()) || bytes.Equal(bogus[:8], qid[:8]) {
				s.W.Probe("answer-with-near-miss-id")
			}
		}
		s.Push(c, s.AnswerPacket(bogus[:], []byte("BOGUS-answer-for-nobody")), now+s.think(), "bogus")
	}
	if s.permille(s.Beh.DropPermille) {
		s.W.Probe("answer-dropped")
		s.Dropped++
		return
	}
	s.Answered++
	pkt := s.AnswerPacket(qid, answer)
	s.Push(c, pkt, now+s.think()+s.extraDelay, "answer")
	s.extraDelay = 0
	if s.DupNext > 0 {
		for i := 0; i < s.DupNext; i++ {
			s.W.Probe("answer-duplicated")
			s.Push(c, pkt, now+s.think(), "dup")
		}
		s.DupNext = 0
	}
	if s.permille(s.Beh.DupPermille) {
		// one to three extra copies: a reply channel with one slot absorbs the first surplus copy
		extra := 1 + s.W.Ch.Choose(3)
		for i := 0; i < extra; i++ {
			s.W.Probe("answer-duplicated")
			s.Push(c, pkt, now+s.think(), "dup")
		}
	}
}

func (s *Server) junk(qid []byte) []byte {
	switch s.W.Ch.Choose(5) {
	case 0: // unknown magic
		return append([]byte{0x01, 0x02, 0x03, 0x04}, qid...)
	case 1: // answer magic but shorter than id + length
		w := &tlref.W{}
		w.U32(s.Sch.ID("adnl.message.answer")).Raw(qid[:16])
		return w.B
	case 2: // unsolicited pong with an unknown id
		pong := make([]byte, 12)
		binary.LittleEndian.PutUint32(pong, MagicPong)
		copy(pong[4:], qid[:8])
		return pong
	case 3: // answer for an unknown id whose length prefix promises more than there is
		w := &tlref.W{}
		bogus := sha256.Sum256(append([]byte("junk"), qid...))
		w.U32(s.Sch.ID("adnl.message.answer")).I256(bogus[:]).BytesLying(200, []byte("short"), false)
		return w.B
	default: // three bytes
		return []byte{1, 2, 3}
	}
}

func (s *Server) ErrorAnswer(code uint32, msg string) []byte {
	w := &tlref.W{}
	w.U32(s.Sch.ID("liteServer.error")).U32(code).Bytes([]byte(msg))
	return w.B
}

func (s *Server) blockIDExt(w *tlref.W, seqno uint32) {
	root, file := BlockID(seqno)
	w.U32(0xffffffff).U64(0x8000000000000000).U32(seqno).Raw(root[:]).Raw(file[:])
}

// liteAnswer computes the answer of a lite-server function.
func (s *Server) liteAnswer(c *core.Conn, q []byte) []byte {
	if len(q) == 0 {
		// a bare waitMasterchainSeqno prefix: the wait is over, nothing else was asked
		return s.ErrorAnswer(0, "")
	}
	if len(q) < 4 {
		return s.ErrorAnswer(400, "empty query")
	}
	fn := binary.LittleEndian.Uint32(q)
	r := &tlref.R{B: q[4:]}
	if s.Custom != nil {
		if a := s.Custom(s, c, fn, r); a != nil {
			return a
		}
		r = &tlref.R{B: q[4:]}
	}
	w := &tlref.W{}
	switch fn {
	case s.Sch.ID("liteServer.getMasterchainInfo"):
		if st, ok := c.ServerData.(*sconn); ok && s.Beh.HoldInfoMs > 0 {
			st.infoCalls++
			if st.infoCalls > s.Beh.HoldInfoAfter {
				s.extraDelay = time.Duration(s.Beh.HoldInfoMs) * time.Millisecond
				s.W.Probe("masterchain-info-held")
			}
		}
		w.U32(s.Sch.ID("liteServer.masterchainInfo"))
		head := s.Head
		if s.permille(s.Beh.StaleInfoPermille) && head > s.MinHead+3 {
			head -= uint32(1 + s.W.Ch.Choose(3))
			s.W.Probe("stale-masterchain-info")
		}
		s.blockIDExt(w, head)
		sr := sha256.Sum256([]byte(fmt.Sprintf("state-%d", head)))
		w.Raw(sr[:])
		zr, zf := BlockID(0)
		w.U32(0xffffffff).Raw(zr[:]).Raw(zf[:])
		s.reportHead(c, head)
		return w.B
	case s.Sch.ID("liteServer.getTime"):
		now := s.W.StartTime().Add(s.W.Now()).Unix()
		return w.U32(s.Sch.ID("liteServer.currentTime")).U32(uint32(now)).B
	case s.Sch.ID("liteServer.getVersion"):
		now := s.W.StartTime().Add(s.W.Now()).Unix()
		return w.U32(s.Sch.ID("liteServer.version")).U32(0).U32(0x101).U64(7).U32(uint32(now)).B
	case s.Sch.ID("liteServer.lookupBlock"):
		mode := r.U32()
		r.U32() // workchain
		r.U64() // shard
		seqno := r.U32()
		if r.Err != nil || mode&1 == 0 {
			return s.ErrorAnswer(400, "unsupported lookup")
		}
		if seqno > s.Head {
			return s.ErrorAnswer(651, "block is not applied")
		}
		if seqno < s.MinSeqno {
			// not an archive node: blocks from before its horizon are gone
			s.W.Probe("lookup-of-a-block-below-the-horizon")
			return s.ErrorAnswer(651, "block is not in db")
		}
		w.U32(s.Sch.ID("liteServer.blockHeader"))
		s.blockIDExt(w, seqno)
		w.U32(0).Bytes([]byte("header-proof-placeholder"))
		s.reportHead(c, seqno)
		return w.B
	}
	return s.ErrorAnswer(400, fmt.Sprintf("unknown function %08x", fn))
}

func (s *Server) reportHead(c *core.Conn, seqno uint32) {
	s.HeadLog = append(s.HeadLog, HeadEvent{At: s.W.Now(), Seqno: seqno})
	if s.OnHeadReported != nil {
		s.OnHeadReported(c, seqno)
	}
}

// Actions lists the ready answers: the driver may send any of them next.
func (s *Server) Actions(now time.Duration) []core.Action {
	var acts []core.Action
	for _, a := range s.pending {
		if a.ReadyAt > now {
			continue
		}
		a := a
		acts = append(acts, core.Action{Label: fmt.Sprintf("srv%d send %s #%d on %s", s.Index, a.Label, a.Seq, a.Conn.Name), Do: func() {
			for i, x := range s.pending {
				if x == a {
					s.pending = append(s.pending[:i], s.pending[i+1:]...)
					break
				}
			}
			s.sendNow(a.Conn, a.Payload)
		}})
	}
	return acts
}

// PendingFor counts queued packets (for oracles / state abstraction).
func (s *Server) PendingCount() int { return len(s.pending) }
func (s *Server) HeldCount() int    { return len(s.held) }

// DropHeld forgets long-polls (used when a connection dies).
func (s *Server) DropConn(c *core.Conn) {
	keep := s.held[:0]
	for _, h := range s.held {
		if h.conn != c {
			keep = append(keep, h)
		}
	}
	s.held = keep
	kp := s.pending[:0]
	for _, a := range s.pending {
		if a.Conn != c {
			kp = append(kp, a)
		}
	}
	s.pending = kp
}
