// Worker: a test binary (testing/synctest needs *testing.T) that executes plans.
//
//	-verif.mode=batch : generate and run plans idx = start, start+stride, ... until count or wall budget
//	-verif.mode=plan  : run one plan file, write the result
package worker

import (
	"bufio"
	"encoding/json"
	"flag"
	"fmt"
	"os"
	"strconv"
	"strings"
	"sync/atomic"
	"syscall"
	"testing"
	"time"

	_ "verif/sim/props"
	"verif/sim/run"
)

var (
	fMode    = flag.String("verif.mode", "", "batch|plan")
	fProp    = flag.String("verif.prop", "", "property id")
	fTier    = flag.String("verif.tier", "quick", "quick|thorough")
	fSeed    = flag.Uint64("verif.seed", 1, "VERIF_SEED")
	fStart   = flag.Int("verif.start", 0, "first index")
	fStride  = flag.Int("verif.stride", 1, "index stride")
	fCount   = flag.Int("verif.count", 1, "max runs")
	fWall    = flag.Float64("verif.wall", 0, "wall budget seconds (0 = none)")
	fJournal = flag.String("verif.journal", "", "journal path")
	fPlan    = flag.String("verif.planfile", "", "plan file")
	fOut     = flag.String("verif.out", "", "result file")
	fRepeat  = flag.Int("verif.repeat", 1, "plan mode: execute this many times, digests must agree")
	fFree    = flag.Bool("verif.free", false, "free-running mode (real mutexes; use with -race build)")
	fExec    = flag.Bool("verif.exec", false, "gen mode: also execute the plan and write the result instead of the plan")
	fRecheck = flag.Int("verif.recheck", 50, "batch mode: re-execute every Nth plan and compare digests")
)

// Summary is what a batch worker reports.
type Summary struct {
	Runs       int            `json:"runs"`
	NextIndex  int            `json:"next_index"`
	Steps      int64          `json:"steps"`
	SimUs      int64          `json:"sim_us"`
	Fired      map[string]int `json:"fired"`
	Probes     map[string]int `json:"probes"`
	Digests    []string       `json:"digests"`     // distinct run digests of non-trivial runs (16 hex chars)
	AllDigests int            `json:"all_digests"` // distinct digests over all runs
	States     []uint64       `json:"states"`
	Grid       []uint64       `json:"grid,omitempty"`
	Nontrivial int            `json:"nontrivial"`
	Violations []ViolationRec `json:"violations,omitempty"`
	Samples    []Sample       `json:"samples,omitempty"`
	Nondeterm  []int          `json:"nondeterministic,omitempty"`
	NondetInfo []string       `json:"nondeterministic_info,omitempty"`
	SelectTies int            `json:"select_ties"`
	Rechecked  int            `json:"rechecked"`
	WallS      float64        `json:"wall_s"`
	Meta       *run.Meta      `json:"meta,omitempty"`
}

type ViolationRec struct {
	Plan   *run.Plan   `json:"plan"`
	Result *run.Result `json:"result"`
}

type Sample struct {
	Plan   *run.Plan `json:"plan"`
	Digest string    `json:"digest"`
	Steps  int       `json:"steps"`
	SimUs  int64     `json:"sim_us"`
}

func TestWorker(t *testing.T) {
	switch *fMode {
	case "batch":
		batch(t)
	case "plan":
		one(t)
	case "gen":
		gen(t)
	default:
		t.Skip("not invoked by the supervisor")
	}
}

func batch(t *testing.T) {
	e := run.Engines[*fProp]
	if e == nil {
		t.Fatalf("unknown property %q", *fProp)
	}
	if !*fFree {
		run.Init()
		limitMemory()
	}
	var jw *bufio.Writer
	var jf *os.File
	if *fJournal != "" {
		f, err := os.OpenFile(*fJournal, os.O_CREATE|os.O_WRONLY|os.O_APPEND, 0o644)
		if err != nil {
			t.Fatal(err)
		}
		jf = f
		jw = bufio.NewWriter(f)
	}
	sum := &Summary{Fired: map[string]int{}, Probes: map[string]int{}, Meta: &e.Meta}
	digNT := map[string]struct{}{}
	digAll := map[string]struct{}{}
	states := map[uint64]struct{}{}
	grid := map[uint64]struct{}{}
	t0 := time.Now()
	idx := *fStart
	// per-run wall-clock watchdog (real time, outside any bubble): a run that does not finish is a harness
	// problem; the worker gives up so that the supervisor can attribute it through the journal
	var cur atomic.Int64
	var curStart atomic.Int64
	go func() {
		for {
			time.Sleep(5 * time.Second)
			st := curStart.Load()
			if st != 0 && time.Now().UnixNano()-st > int64(120*time.Second) {
				fmt.Fprintf(os.Stderr, "WATCHDOG: plan %d has been running for more than 120 s of wall time\n", cur.Load())
				os.Exit(3)
			}
		}
	}()
	for n := 0; n < *fCount; n++ {
		if *fWall > 0 && time.Since(t0).Seconds() > *fWall {
			break
		}
		if jw != nil {
			jw.WriteString("S " + strconv.Itoa(idx) + "\n")
			jw.Flush()
		}
		p := e.Gen(run.RunSeed(*fSeed, idx), idx, *fTier)
		p.Free = *fFree
		cur.Store(int64(idx))
		curStart.Store(time.Now().UnixNano())
		recheck := !*fFree && *fRecheck > 0 && n%*fRecheck == 0
		run.KeepLog = recheck
		r := run.Execute(t, p, false)
		if recheck {
			r2 := run.Execute(t, p, false)
			run.KeepLog = false
			sum.Rechecked++
			if r2.Digest != r.Digest {
				at, x, y := run.FirstDiff(r.Log, r2.Log)
				if run.IsSelectTie(x, y) {
					sum.SelectTies++
				} else {
					sum.Nondeterm = append(sum.Nondeterm, idx)
					if len(sum.NondetInfo) < 3 {
						sum.NondetInfo = append(sum.NondetInfo, fmt.Sprintf("plan %d line %d: %q vs %q", idx, at, x, y))
					}
				}
			}
			r.Log, r2.Log = nil, nil
		}
		sum.Runs++
		sum.Steps += int64(r.Steps)
		sum.SimUs += r.SimUs
		for k, v := range r.Fired {
			sum.Fired[k] += v
		}
		for k, v := range r.Probes {
			sum.Probes[k] += v
		}
		d := r.Digest
		if len(d) > 16 {
			d = d[:16]
		}
		digAll[d] = struct{}{}
		if r.Nontrivial {
			sum.Nontrivial++
			digNT[d] = struct{}{}
		}
		for _, s := range r.States {
			states[s] = struct{}{}
		}
		for _, s := range r.Grid {
			grid[s] = struct{}{}
		}
		if len(r.Violations) > 0 && len(sum.Violations) < 20 {
			sum.Violations = append(sum.Violations, ViolationRec{Plan: p, Result: r})
		}
		if len(sum.Samples) < 2 && (r.Nontrivial || n > 20) {
			sum.Samples = append(sum.Samples, Sample{Plan: p, Digest: r.Digest, Steps: r.Steps, SimUs: r.SimUs})
		}
		idx += *fStride
	}
	curStart.Store(0)
	sum.NextIndex = idx
	for d := range digNT {
		sum.Digests = append(sum.Digests, d)
	}
	sum.AllDigests = len(digAll)
	for s := range states {
		sum.States = append(sum.States, s)
	}
	for s := range grid {
		sum.Grid = append(sum.Grid, s)
	}
	sum.WallS = time.Since(t0).Seconds()
	if jw != nil {
		jw.WriteString("D\n")
		jw.Flush()
		jf.Close()
	}
	if err := run.WriteJSON(*fOut, sum); err != nil {
		t.Fatal(err)
	}
}

func one(t *testing.T) {
	p, err := run.ReadPlan(*fPlan)
	if err != nil {
		t.Fatal(err)
	}
	if *fFree {
		p.Free = true
	}
	if !p.Free {
		run.Init()
		limitMemory()
	}
	var first *run.Result
	for i := 0; i < *fRepeat; i++ {
		r := run.Execute(t, p, true)
		if first == nil {
			first = r
		} else if r.Digest != first.Digest {
			first.Violations = nil
			first.Digest = "NONDETERMINISTIC " + first.Digest + " vs " + r.Digest
			break
		}
	}
	b, _ := json.MarshalIndent(first, "", " ")
	if *fOut == "" {
		fmt.Println(string(b))
		return
	}
	if err := os.WriteFile(*fOut, b, 0o644); err != nil {
		t.Fatal(err)
	}
}

func gen(t *testing.T) {
	e := run.Engines[*fProp]
	if e == nil {
		t.Fatalf("unknown property %q", *fProp)
	}
	p := e.Gen(run.RunSeed(*fSeed, *fStart), *fStart, *fTier)
	if !*fExec {
		if err := run.WriteJSON(*fOut, p); err != nil {
			t.Fatal(err)
		}
		return
	}
	run.Init()
	run.KeepLog = os.Getenv("VERIF_DUMPLOG") != ""
	r := run.Execute(t, p, false)
	if f := os.Getenv("VERIF_DUMPLOG"); f != "" {
		_ = os.WriteFile(f, []byte(strings.Join(r.Log, "\n")+"\n"), 0o644)
	}
	if err := run.WriteJSON(*fOut, r); err != nil {
		t.Fatal(err)
	}
}

// limitMemory turns an absurd allocation (driven by an attacker-chosen length) into an attributable
// crash instead of eating the machine. Not possible for -race binaries (they reserve terabytes of address space).
func limitMemory() {
	lim := syscall.Rlimit{Cur: 24 << 30, Max: 24 << 30}
	_ = syscall.Setrlimit(syscall.RLIMIT_AS, &lim)
}
