package props

import (
	"bytes"
	"errors"
	"fmt"
	"io"
	"reflect"
	"runtime"
	"runtime/debug"

	"github.com/tonkeeper/tongo/tl"

	"verif/sim/core"
	"verif/sim/run"
)

// ---- rdsim: a simulated io.Reader whose behaviour comes from the plan ----

type simReader struct {
	data     []byte
	pos      int
	g        *core.SplitMix64
	mode     int // 0 whole, 1 small chunks, 2 one byte at a time, 3 random chunks with (0,nil) reads and (n,EOF) at the end
	faultAt  int // offset at which the fault happens (-1: none)
	fault    int // 1 transient error, 2 EOF (truncation), 3 permanent error
	fired    bool
	zeroRun  int
	reads    int
	maxChunk int
}

var errInjected = errors.New("rdsim: injected read error")

func (r *simReader) Read(p []byte) (int, error) {
	r.reads++
	if len(p) == 0 {
		return 0, nil
	}
	if r.faultAt >= 0 && r.pos >= r.faultAt && !r.fired {
		switch r.fault {
		case 1:
			r.fired = true
			return 0, errInjected
		case 2:
			return 0, io.EOF
		case 3:
			return 0, errInjected
		}
	}
	if r.pos >= len(r.data) {
		return 0, io.EOF
	}
	n := len(p)
	switch r.mode {
	case 1:
		if m := 1 + r.g.Intn(7); n > m {
			n = m
		}
	case 2:
		n = 1
	case 3:
		if r.zeroRun < 2 && r.g.Intn(5) == 0 {
			r.zeroRun++
			return 0, nil
		}
		r.zeroRun = 0
		if m := 1 + r.g.Intn(r.maxChunk); n > m {
			n = m
		}
	}
	if n > len(r.data)-r.pos {
		n = len(r.data) - r.pos
	}
	if r.faultAt >= 0 && !r.fired && r.pos+n > r.faultAt {
		n = r.faultAt - r.pos // deliver up to the fault point first
		if n == 0 {
			return r.Read(p)
		}
	}
	copy(p, r.data[r.pos:r.pos+n])
	r.pos += n
	if r.mode == 3 && r.pos == len(r.data) && r.g.Intn(2) == 0 {
		return n, io.EOF // data together with EOF, as io.Reader allows
	}
	return n, nil
}

// fillValue populates a TL value from the seed (every optional pointer is set; which of them is encoded is decided by the random Mode bits).
func fillValue(v reflect.Value, g *core.SplitMix64, depth int) {
	switch v.Kind() {
	case reflect.Uint32, reflect.Uint64, reflect.Uint, reflect.Uint8, reflect.Uint16:
		switch g.Intn(4) {
		case 0:
			v.SetUint(uint64(g.Intn(4)))
		case 1:
			v.SetUint(g.Next() >> uint(64-v.Type().Bits()))
		default:
			v.SetUint(uint64(g.Intn(1 << 16)))
		}
	case reflect.Int32, reflect.Int64, reflect.Int, reflect.Int8, reflect.Int16:
		v.SetInt(int64(g.Next()) >> uint(64-v.Type().Bits()))
	case reflect.Bool:
		v.SetBool(g.Intn(2) == 0)
	case reflect.String:
		v.SetString(string(g.Bytes([]int{0, 1, 5, 253, 254, 300}[g.Intn(6)])))
	case reflect.Slice:
		if v.Type().Elem().Kind() == reflect.Uint8 {
			v.SetBytes(g.Bytes([]int{0, 1, 3, 4, 5, 100, 253, 254, 255, 256, 1000, 70000}[g.Intn(12)]))
			return
		}
		n := g.Intn(4)
		if depth > 3 {
			n = 0
		}
		s := reflect.MakeSlice(v.Type(), n, n)
		for i := 0; i < n; i++ {
			fillValue(s.Index(i), g, depth+1)
		}
		v.Set(s)
	case reflect.Array:
		for i := 0; i < v.Len(); i++ {
			fillValue(v.Index(i), g, depth+1)
		}
	case reflect.Pointer:
		if depth > 6 {
			return
		}
		p := reflect.New(v.Type().Elem())
		fillValue(p.Elem(), g, depth+1)
		v.Set(p)
	case reflect.Struct:
		if _, ok := v.Type().FieldByName("SumType"); ok {
			var variants []int
			for i := 0; i < v.NumField(); i++ {
				if v.Type().Field(i).Name != "SumType" && v.Field(i).CanSet() {
					variants = append(variants, i)
				}
			}
			if len(variants) == 0 {
				return
			}
			k := variants[g.Intn(len(variants))]
			v.FieldByName("SumType").SetString(v.Type().Field(k).Name)
			fillValue(v.Field(k), g, depth+1)
			return
		}
		for i := 0; i < v.NumField(); i++ {
			if v.Field(i).CanSet() {
				fillValue(v.Field(i), g, depth+1)
			}
		}
	}
}

type allocMeter struct{ before uint64 }

func startAlloc() allocMeter {
	var m runtime.MemStats
	runtime.ReadMemStats(&m)
	return allocMeter{before: m.TotalAlloc}
}

func (a allocMeter) delta() uint64 {
	var m runtime.MemStats
	runtime.ReadMemStats(&m)
	return m.TotalAlloc - a.before
}

// allocBound is the most a decoder may allocate for an input of n bytes: proportional to the input plus a
// constant that covers one maximal TL bytes field (2^24) and the ADNL frame cap (8 MiB).
func allocBound(n int) uint64 { return 64*uint64(n) + 48<<20 }

func genC08(seed uint64, index int, tier string) *run.Plan {
	g := core.NewRng(core.Mix(seed, 8))
	p := &run.Plan{Property: "C08", Tier: tier, Seed: seed, Index: index, P: map[string]int{}}
	if g.Intn(3) != 0 {
		genC08srv(g, p, tier)
		return p
	}
	p.P["engine"] = 0 // rdsim
	p.P["type"] = g.Intn(len(tlTypes))
	p.P["rmode"] = g.Intn(4)
	p.P["chunk"] = []int{1, 2, 3, 4, 7, 16, 64, 4096}[g.Intn(8)]
	p.P["trail"] = []int{0, 0, 4, 1000}[g.Intn(4)]
	switch g.Intn(3) {
	case 0: // chunking only
	case 1:
		p.Faults = append(p.Faults, run.Fault{Kind: "read-fault", A: 1 + g.Intn(3), B: g.Intn(1000)})
	case 2:
		kind := []string{"truncate", "set32", "set32", "setbyte", "flip", "insert"}[g.Intn(6)]
		p.Faults = append(p.Faults, run.Fault{Kind: "mutate-" + kind, A: g.Intn(1000), B: g.Intn(8), C: g.Intn(256)})
	}
	return p
}

var c08words = []uint32{0xffffffff, 0x7fffffff, 0x80000000, 0x00ffffff, 0x01000000, 50000000, 1 << 20, 65536, 255, 254, 0xfe, 0}

// mutate applies one Byzantine mutation to an encoding.
func c08mutate(e []byte, f run.Fault) []byte {
	out := append([]byte{}, e...)
	if len(out) == 0 {
		return out
	}
	switch f.Kind {
	case "mutate-truncate":
		return out[:f.A*len(out)/1000]
	case "mutate-set32":
		off := (f.A * len(out) / 1000) &^ 3
		if off+4 > len(out) {
			off = (len(out) - 4) &^ 3
		}
		if off < 0 {
			return out
		}
		v := c08words[(f.B+f.C)%len(c08words)]
		if f.B%3 == 0 { // count +- 1
			cur := uint32(out[off]) | uint32(out[off+1])<<8 | uint32(out[off+2])<<16 | uint32(out[off+3])<<24
			v = cur + 1
			if f.C%2 == 0 {
				v = cur - 1
			}
		}
		out[off], out[off+1], out[off+2], out[off+3] = byte(v), byte(v>>8), byte(v>>16), byte(v>>24)
	case "mutate-setbyte":
		off := f.A * len(out) / 1000
		if off >= len(out) {
			off = len(out) - 1
		}
		out[off] = []byte{254, 255, 253, 0, 1, 0x80}[f.B%6]
	case "mutate-flip":
		off := f.A * len(out) / 1000
		if off >= len(out) {
			off = len(out) - 1
		}
		out[off] ^= 1 << uint(f.B%8)
	case "mutate-insert":
		off := (f.A * len(out) / 1000) &^ 3
		junk := []byte{254, 0xff, 0xff, 0xff}
		out = append(out[:off:off], append(junk, out[off:]...)...)
	}
	return out
}

func safeDecode(r io.Reader, obj any) (err error, panicked any, stack string) {
	defer func() {
		if x := recover(); x != nil {
			panicked = x
			stack = repoFrames(string(debug.Stack()))
		}
	}()
	err = tl.Unmarshal(r, obj)
	return
}

func execC08rd(w *core.World, p *run.Plan, r *run.Result) {
	if p.Free {
		return // the reader engine is single-threaded by construction: nothing for the race detector
	}
	ti := p.Get("type", 0) % len(tlTypes)
	tname := tlTypes[ti].Name
	g := core.NewRng(core.Mix(p.Seed, 808))
	obj := tlTypes[ti].New()
	fillValue(reflect.ValueOf(obj).Elem(), g, 0)
	var enc []byte
	func() {
		defer func() {
			if x := recover(); x != nil {
				enc = nil
				w.Probe("unencodable-sample")
			}
		}()
		b, err := tl.Marshal(reflect.ValueOf(obj).Elem().Interface())
		if err == nil {
			enc = b
		}
	}()
	if enc == nil {
		w.Probe("unencodable:" + tname)
		return
	}
	// baseline through a plain bytes.Reader
	base := tlTypes[ti].New()
	if err, pn, _ := safeDecode(bytes.NewReader(enc), base); err != nil || pn != nil {
		w.Probe("baseline-decode-failed:" + tname) // conformance of the codec is C10, not claimed here
		return
	}
	var fault *run.Fault
	for i := range p.Faults {
		fault = &p.Faults[i]
	}
	input := enc
	mutated := false
	if fault != nil && len(fault.Kind) > 7 && fault.Kind[:7] == "mutate-" {
		input = c08mutate(enc, *fault)
		mutated = true
		w.Net.Fired[fault.Kind]++
	}
	trail := p.Get("trail", 0)
	stream := append(append([]byte{}, input...), core.NewRng(p.Seed).Bytes(trail)...)
	rd := &simReader{data: stream, g: core.NewRng(core.Mix(p.Seed, 809)), mode: p.Get("rmode", 0), faultAt: -1, maxChunk: p.Get("chunk", 16)}
	if fault != nil && fault.Kind == "read-fault" && len(enc) > 0 {
		rd.fault = fault.A
		rd.faultAt = fault.B * len(enc) / 1000
		w.Net.Fired[fmt.Sprintf("read-fault-%d", fault.A)]++
	}
	if rd.mode != 0 {
		w.Net.Fired["chunked-reads"]++
	}
	got := tlTypes[ti].New()
	meter := startAlloc()
	err, pn, stack := safeDecode(rd, got)
	alloc := meter.delta()
	cls := func(s string) string { return "C08." + s + "|" + tname }
	r.Nontrivial = rd.mode != 0 || fault != nil
	w.Visit(hash64(fmt.Sprintf("rd|%s|%d|%v|%v", tname, rd.mode, fault != nil && !mutated, mutated)))
	if pn != nil {
		w.Violate("C08.panic", "C08.panic|"+stripNums(fmt.Sprint(pn))+"|"+firstFrame(stack), fmt.Sprintf("tl.Unmarshal into %s panicked: %v at %s (input %d bytes)", tname, pn, stack, len(input)))
		return
	}
	if alloc > allocBound(len(stream)) {
		w.Violate("C08.alloc", cls("alloc"), fmt.Sprintf("decoding %d bytes into %s allocated %d MiB (bound %d MiB)", len(stream), tname, alloc>>20, allocBound(len(stream))>>20))
	}
	if rd.pos > len(stream) {
		w.Violate("C08.reader", cls("overread"), "decoder consumed more bytes than offered")
	}
	if mutated {
		w.Probe("mutated-decode")
		return
	}
	if rd.faultAt >= 0 {
		if err == nil && rd.faultAt < len(enc) {
			w.Violate("C08.reader", cls("fault-ignored"), fmt.Sprintf("reader failed (kind %d) at offset %d of %d, yet decoding %s reported success", rd.fault, rd.faultAt, len(enc), tname))
		}
		return
	}
	// chunking alone never changes the decoded value (refinement against the bytes.Reader run)
	if err != nil {
		w.Violate("C08.reader", cls("chunking-error"), fmt.Sprintf("valid encoding of %s (%d bytes) decodes from bytes.Reader but fails with reader mode %d: %v", tname, len(enc), rd.mode, err))
		return
	}
	if !reflect.DeepEqual(base, got) {
		w.Violate("C08.reader", cls("chunking-value"), fmt.Sprintf("decoded %s differs between bytes.Reader and reader mode %d: %+v vs %+v", tname, rd.mode, trunc(fmt.Sprintf("%+v", base)), trunc(fmt.Sprintf("%+v", got))))
	}
	if rd.pos != len(enc) {
		w.Violate("C08.reader", cls("consumed"), fmt.Sprintf("decoding %s consumed %d bytes, its encoding has %d (trailing bytes: %d)", tname, rd.pos, len(enc), trail))
	}
}

func firstFrame(stack string) string {
	for i := 0; i < len(stack); i++ {
		if stack[i] == ' ' {
			return stack[:i]
		}
	}
	return stack
}

func trunc(s string) string {
	if len(s) > 300 {
		return s[:300]
	}
	return s
}
