// Package props holds the per-property engines: plan generators, workloads and oracles.
package props

import (
	"bytes"
	"context"
	"crypto/ed25519"
	"crypto/sha256"
	"encoding/binary"
	"fmt"
	"hash/fnv"
	"sort"
	"sync"
	"testing"
	"time"

	"github.com/tonkeeper/tongo/liteclient"

	"verif/sim/adnl"
	"verif/sim/core"
	"verif/sim/run"
)

const (
	magicPing = 0x4d082b9a
	magicPong = 0xdc69fb03
)

// ---- a spec-level ADNL server used as transport oracle (C11) ----

type c11conn struct {
	hsBuf    []byte
	sess     *adnl.Session
	fr       *adnl.Framer
	received [][]byte // payloads the server's own framer extracted (pings excluded)
	frames   int      // frames extracted incl. pings
	pings    int
	badPing  string
	hsErr    error
	frErr    error
	sentSeq  int           // frames sent s2c (0 = handshake confirmation)
	sessAt   time.Duration // instant at which the server completed the handshake of this session
}

type c11server struct {
	w      *core.World
	key    adnl.ServerKey
	conns  []*core.Conn   // first connection accepted per host (= per logical client)
	all    [][]*core.Conn // every connection accepted per host, in accept order (reconnects)
	pong   bool
	faults []*core.StreamFault // per logical client
	onSess func(ci int)        // called when the first connection of a logical client completed the handshake
}

func (s *c11server) st(c *core.Conn) *c11conn { return c.ServerData.(*c11conn) }

func (s *c11server) OnAccept(c *core.Conn) {
	c.ServerData = &c11conn{}
	c.RecordWire = true
	ci := c.Host.Index
	s.all[ci] = append(s.all[ci], c)
	if s.conns[ci] == nil {
		s.conns[ci] = c
		if f := s.faults[ci]; f != nil {
			c.AddStreamFault(*f)
		}
	}
}

func (s *c11server) OnClientClose(c *core.Conn) {}

func (s *c11server) OnBytes(c *core.Conn, b []byte) {
	st := s.st(c)
	if st.hsErr != nil || st.frErr != nil {
		return
	}
	if st.sess == nil {
		st.hsBuf = append(st.hsBuf, b...)
		if len(st.hsBuf) < 256 {
			return
		}
		sess, err := s.key.Handshake(st.hsBuf[:256])
		if err != nil {
			st.hsErr = err
			s.w.Logf("server: handshake rejected conn=%s: %v", c.Name, err)
			c.ServerClose(0)
			return
		}
		st.sess = sess
		st.sessAt = s.w.Now()
		st.fr = &adnl.Framer{S: sess}
		b = st.hsBuf[256:]
		st.hsBuf = nil
		st.sentSeq++
		c.ServerSend(sess.Seal(s.nonce(c, 0), nil))
		if s.onSess != nil && s.conns[c.Host.Index] == c {
			s.onSess(c.Host.Index)
		}
		if len(b) == 0 {
			return
		}
	}
	ps, err := st.fr.Feed(b)
	for _, p := range ps {
		st.frames++
		if len(p) >= 4 && binary.LittleEndian.Uint32(p) == magicPing {
			st.pings++
			if len(p) != 12 {
				st.badPing = fmt.Sprintf("ping of %d bytes", len(p))
			}
			if s.pong {
				pong := make([]byte, 12)
				binary.LittleEndian.PutUint32(pong, magicPong)
				copy(pong[4:], p[4:12])
				st.sentSeq++
				c.ServerSend(st.sess.Seal(s.nonce(c, st.sentSeq), pong))
			}
			continue
		}
		st.received = append(st.received, p)
	}
	if err != nil {
		st.frErr = err
		s.w.Logf("server: framing error conn=%s: %v", c.Name, err)
		c.ServerClose(0)
	}
}

// latest returns the newest session of a logical client that completed the handshake and is still up.
func (s *c11server) latest(ci int) *core.Conn {
	for i := len(s.all[ci]) - 1; i >= 0; i-- {
		c := s.all[ci][i]
		if s.st(c).sess != nil && c.Alive() {
			return c
		}
	}
	return nil
}

func (s *c11server) nonce(c *core.Conn, k int) (n [32]byte) {
	h := sha256.Sum256([]byte(fmt.Sprintf("nonce-%s-%d", c.Name, k)))
	return h
}

func serverKeyFromSeed(seed uint64, idx int) adnl.ServerKey {
	sb := make([]byte, 32)
	binary.LittleEndian.PutUint64(sb, seed)
	binary.LittleEndian.PutUint64(sb[8:], uint64(idx)+0x1234)
	priv := ed25519.NewKeyFromSeed(sb)
	return adnl.ServerKey{Priv: priv, Pub: priv.Public().(ed25519.PublicKey)}
}

// payload of op k: deterministic bytes; first 4 bytes never collide with ping/pong/auth magics.
func c11payload(seed uint64, tag int, size int) []byte {
	b := core.NewRng(core.Mix(seed, uint64(tag)+77)).Bytes(size)
	if size >= 4 {
		b[0], b[1], b[2], b[3] = 0xC1, 0x1C, byte(tag), byte(tag>>8)
	}
	return b
}

var c11sizes = []int{0, 1, 3, 4, 5, 12, 31, 32, 33, 63, 64, 65, 100, 255, 256, 257, 1000, 4095, 4096, 4097, 16384, 65535, 65536}

func init() {
	// payload sizes that put the frame length (payload + 64) on, just below and just above a power of two:
	// buffer-pool and read-buffer thresholds live there
	for l := 128; l <= 65536; l *= 2 {
		c11sizes = append(c11sizes, l-64-1, l-64, l-64+1)
	}
}

func genC11(seed uint64, index int, tier string) *run.Plan {
	g := core.NewRng(core.Mix(seed, 11))
	p := &run.Plan{Property: "C11", Tier: tier, Seed: seed, Index: index, P: map[string]int{}}
	p.P["conns"] = 1 + g.Intn(2)*g.Intn(2)
	p.P["split"] = g.Intn(4) / 1 % 2 // half of the runs split/coalesce
	if g.Intn(4) != 0 {
		p.P["split"] = 1
	}
	p.P["lat_c2s_us"] = []int{0, 50, 2000, 200000}[g.Intn(4)]
	p.P["lat_s2c_us"] = []int{0, 50, 2000, 200000}[g.Intn(4)]
	p.P["jit_us"] = []int{0, 30, 5000}[g.Intn(3)]
	p.P["pong"] = g.Intn(2)
	spanMs := []int{5, 500, 4000, 6000}[g.Intn(4)]
	p.P["span_ms"] = spanMs
	// the context handed to NewConnection governs connecting only: a deadline that passes, or a cancellation,
	// after the connection is up must not touch the packets that follow (dialing is instant in this simulation,
	// the handshake takes up to a round trip)
	p.P["ctx_ms"] = []int{0, 0, 0, 1500, 2500, 3500}[g.Intn(6)]
	p.P["ctx_cancel"] = g.Intn(4) / 3
	maxOps := 12
	if tier == "thorough" {
		maxOps = 40
	}
	for c := 0; c < p.P["conns"]; c++ {
		nc, ns := g.Intn(maxOps+1), g.Intn(maxOps+1)
		for i := 0; i < nc; i++ {
			p.Ops = append(p.Ops, run.Op{Kind: "csend", Caller: c, AtMs: g.Intn(spanMs + 1), A: c11size(g, tier)})
		}
		for i := 0; i < ns; i++ {
			p.Ops = append(p.Ops, run.Op{Kind: "ssend", Caller: c, AtMs: g.Intn(spanMs + 1), A: c11size(g, tier)})
		}
	}
	// length-bound probes (server crafts the declared length)
	if g.Intn(6) == 0 {
		decl := []int{0, 1, 63, 64, 8 << 20, 8<<20 + 1, 1 << 30, 0x7fffffff, -1}[g.Intn(9)]
		p.Ops = append(p.Ops, run.Op{Kind: "sraw", Caller: 0, AtMs: g.Intn(spanMs + 1), A: decl})
	}
	// at most one corruption per run
	if g.Intn(3) != 0 {
		kind := []string{"flip", "flip", "subst", "truncate", "dup", "drop", "insert"}[g.Intn(7)]
		f := &core.StreamFault{Dir: g.Intn(2), Frame: g.Intn(8), Region: []string{"len", "nonce", "payload", "hash", "any"}[g.Intn(5)], Permille: g.Intn(1000), Kind: kind}
		if g.Intn(4) == 0 {
			f.Frame = 0 // handshake / confirmation
		}
		switch kind {
		case "flip":
			f.Arg = 1 << g.Intn(8)
		case "subst":
			f.Arg = 1 + g.Intn(255)
		default:
			f.Arg = 1 + g.Intn(40)
		}
		p.Faults = append(p.Faults, run.Fault{Kind: "stream", Conn: g.Intn(p.P["conns"]), Stream: f})
	} else if spanMs >= 4000 && g.Intn(2) == 0 {
		// no corruption: the server drops the connection (reset, or an orderly close) while packets flow; the client
		// reconnects by itself and every later packet has to arrive intact over the new session
		p.Faults = append(p.Faults, run.Fault{Kind: "reset", Conn: g.Intn(p.P["conns"]), AtMs: g.Intn(spanMs/2 + 1), A: g.Intn(3), B: g.Intn(3)})
	}
	return p
}

func c11size(g *core.SplitMix64, tier string) int {
	switch g.Intn(12) {
	case 0:
		return g.Intn(70000)
	case 1:
		if g.Intn(60) == 0 {
			return 8<<20 - 64 // the limit
		}
		if g.Intn(20) == 0 {
			return 1 << 20
		}
	}
	return c11sizes[g.Intn(len(c11sizes))]
}

type c11client struct {
	mu       sync.Mutex
	conn     *liteclient.Connection
	connErr  error
	returned bool
	got      [][]byte
	gotSum   [][32]byte
	sendErrs []string
	sentOK   [][]byte        // payloads whose Send returned nil, in call order
	sentAt   []time.Duration // instant at which each of those calls started
	tried    [][]byte        // every payload handed to Send
}

func execC11(t *testing.T, w *core.World, p *run.Plan, r *run.Result) {
	srv := &c11server{w: w, key: serverKeyFromSeed(p.Seed, 0), pong: p.Get("pong", 1) == 1}
	nconns := p.Get("conns", 1)
	srv.conns = make([]*core.Conn, nconns)
	srv.faults = make([]*core.StreamFault, nconns)
	srv.all = make([][]*core.Conn, nconns)
	for ci := 0; ci < nconns; ci++ {
		h := w.Net.AddHost(fmt.Sprintf("sim:%d", ci), srv)
		h.Latency[core.C2S] = core.LatencyModel{BaseUs: p.Get("lat_c2s_us", 0), JitterUs: p.Get("jit_us", 0)}
		h.Latency[core.S2C] = core.LatencyModel{BaseUs: p.Get("lat_s2c_us", 0), JitterUs: p.Get("jit_us", 0)}
	}
	w.Net.Split = p.Get("split", 0) == 1
	clients := make([]*c11client, nconns)

	// per logical connection: the planned fault, if any
	faultFor := func(ci int) *core.StreamFault {
		for _, f := range p.Faults {
			if f.Kind == "stream" && f.Conn == ci && f.Stream != nil {
				return f.Stream
			}
		}
		return nil
	}

	resetFor := func(ci int) *run.Fault {
		for i := range p.Faults {
			if p.Faults[i].Kind == "reset" && p.Faults[i].Conn == ci {
				return &p.Faults[i]
			}
		}
		return nil
	}
	resetFired := make([]bool, nconns)
	for ci := 0; ci < nconns; ci++ {
		srv.faults[ci] = faultFor(ci)
		if rf := resetFor(ci); rf != nil {
			ci, rf := ci, rf
			w.At(time.Duration(rf.AtMs)*time.Millisecond+time.Duration(ci)*time.Microsecond+500*time.Nanosecond, fmt.Sprintf("server drops client %d", ci), func() {
				c := srv.latest(ci)
				if c == nil {
					if len(srv.all[ci]) == 0 {
						return
					}
					c = srv.all[ci][len(srv.all[ci])-1]
				}
				resetFired[ci] = true
				if rf.A == 0 {
					c.ServerClose(rf.B)
				} else {
					c.Reset()
				}
			})
		}
	}
	// Client side: connect, then reader + sender goroutines.
	for ci := 0; ci < nconns; ci++ {
		ci := ci
		cl := &c11client{}
		clients[ci] = cl
		var sends []run.Op
		for _, op := range p.Ops {
			if op.Kind == "csend" && op.Caller == ci {
				sends = append(sends, op)
			}
		}
		// stable order by time
		for i := 1; i < len(sends); i++ {
			for j := i; j > 0 && sends[j].AtMs < sends[j-1].AtMs; j-- {
				sends[j], sends[j-1] = sends[j-1], sends[j]
			}
		}
		w.At(time.Duration(ci)*time.Microsecond, fmt.Sprintf("connect %d", ci), func() {
			go func() {
				w.Tag(fmt.Sprintf("client-%d", ci))
				ctx := context.Background()
				cancel := func() {}
				if ms := p.Get("ctx_ms", 0); ms > 0 {
					ctx, cancel = context.WithTimeout(ctx, time.Duration(ms)*time.Millisecond)
				} else if p.Get("ctx_cancel", 0) == 1 {
					ctx, cancel = context.WithCancel(ctx)
				}
				conn, err := liteclient.NewConnection(ctx, srv.key.Pub, fmt.Sprintf("sim:%d", ci))
				if p.Get("ctx_cancel", 0) == 1 {
					cancel() // the usual `defer cancel()` of the function that connected
				}
				_ = cancel
				cl.mu.Lock()
				cl.conn, cl.connErr, cl.returned = conn, err, true
				cl.mu.Unlock()
				w.Logf("client %d: NewConnection err=%v", ci, err)
				if err != nil {
					return
				}
				go func() {
					w.Tag(fmt.Sprintf("client-%d-rx", ci))
					for pk := range conn.Responses() {
						cl.mu.Lock()
						// keep the delivered slice itself (no copy) plus its digest at delivery time: a payload that
						// the library overwrites later (buffer reuse) has to show up in the comparison at the end
						cl.got = append(cl.got, pk.Payload)
						cl.gotSum = append(cl.gotSum, sha256.Sum256(pk.Payload))
						cl.mu.Unlock()
					}
				}()
				t0 := w.Now()
				// free-running (-race) mode: several goroutines send on the same connection at once
				nsend := 1
				if p.Free {
					nsend = 3
				}
				var wg sync.WaitGroup
				for sidx := 0; sidx < nsend; sidx++ {
					sidx := sidx
					wg.Add(1)
					go func() {
						defer wg.Done()
						w.Tag(fmt.Sprintf("client-%d-tx%d", ci, sidx))
						for k, op := range sends {
							if k%nsend != sidx {
								continue
							}
							if d := time.Duration(op.AtMs)*time.Millisecond - (w.Now() - t0); d > 0 {
								time.Sleep(d)
							}
							payload := c11payload(p.Seed, ci*1000+k, op.A)
							startedAt := w.Now()
							pk, err := liteclient.NewPacket(append([]byte{}, payload...))
							if err == nil {
								err = conn.Send(pk)
							}
							cl.mu.Lock()
							cl.tried = append(cl.tried, payload)
							if err != nil {
								cl.sendErrs = append(cl.sendErrs, err.Error())
							} else {
								cl.sentOK = append(cl.sentOK, payload)
								cl.sentAt = append(cl.sentAt, startedAt)
							}
							cl.mu.Unlock()
						}
					}()
				}
				wg.Wait()
			}()
		})
	}

	// Server side scripted sends: they go to the first connection accepted for that logical client.
	// Logical client ci dials ci-th (connect events are ordered by time offset, but to be exact we map by accept order).
	type ssent struct {
		frame   int // s2c frame index on the wire
		payload []byte
		raw     bool
	}
	sentBy := make([][]ssent, nconns)
	srv.onSess = func(ci int) {
		k := 0
		for _, op := range p.Ops {
			if op.Caller != ci || (op.Kind != "ssend" && op.Kind != "sraw") {
				continue
			}
			op := op
			kk := k
			k++
			w.At(time.Duration(op.AtMs)*time.Millisecond+time.Duration(kk+1)*time.Microsecond, fmt.Sprintf("%s c=%d k=%d", op.Kind, ci, kk), func() {
				c := srv.conns[ci]
				if resetFor(ci) != nil {
					c = srv.latest(ci)
				}
				if c == nil {
					return
				}
				st := srv.st(c)
				if st.sess == nil || !c.Alive() {
					return
				}
				st.sentSeq++
				fr := c.Frames(core.S2C)
				if op.Kind == "sraw" {
					body := make([]byte, 64)
					if op.A >= 0 && op.A <= 8<<20 {
						body = make([]byte, op.A)
					}
					c.ServerSend(st.sess.SealRaw(uint32(op.A), srv.nonce(c, st.sentSeq), body))
					valid := op.A == 64 || op.A == 8<<20
					var pl []byte
					if valid {
						pl = make([]byte, op.A-64)
					}
					sentBy[ci] = append(sentBy[ci], ssent{frame: fr, payload: pl, raw: !valid})
					w.Probe(fmt.Sprintf("declared-len-%d", op.A))
					return
				}
				payload := c11payload(p.Seed, 500000+ci*1000+kk, op.A)
				c.ServerSend(st.sess.Seal(srv.nonce(c, st.sentSeq), payload))
				sentBy[ci] = append(sentBy[ci], ssent{frame: fr, payload: payload})
			})
		}
	}

	span := time.Duration(p.Get("span_ms", 1000)) * time.Millisecond
	horizon := span + 3400*time.Millisecond
	for ci := 0; ci < nconns; ci++ {
		if resetFor(ci) != nil {
			horizon = span + 7500*time.Millisecond // a dropped idle connection is noticed by the next ping (3 s)
		}
	}
	w.Run(nil, 200000, horizon)

	// ---- oracles ----
	for ci := 0; ci < nconns; ci++ {
		cl := clients[ci]
		cl.mu.Lock()
		for i := range cl.got {
			if sha256.Sum256(cl.got[i]) != cl.gotSum[i] {
				w.Violate("C11.c-s2c", "C11.c|payload-changed-after-delivery", fmt.Sprintf("client %d: the %d-byte payload of delivered packet %d changed after it was handed to the application", ci, len(cl.got[i]), i))
				break
			}
		}
		if rf := resetFor(ci); rf != nil && resetFired[ci] {
			c11judgeReconnect(w, p, srv, ci, cl)
			cl.mu.Unlock()
			r.Nontrivial = true
			continue
		}
		f := faultFor(ci)
		var c *core.Conn
		var st *c11conn
		if srv.conns[ci] != nil {
			c = srv.conns[ci]
			st = srv.st(c)
		}
		fired := false
		if f != nil && c != nil {
			fired = c.FaultsFired() > 0
		}
		tag := "none"
		if fired {
			tag = f.Kind + "/" + dirName(f.Dir)
		}
		if !fired {
			// (a) handshake must succeed, (b) c2s and (c) s2c sequences must be exact
			if !cl.returned || cl.connErr != nil {
				w.Violate("C11.a-handshake", "C11.a|none", fmt.Sprintf("client %d: NewConnection returned=%v err=%v without any fault (server: %v)", ci, cl.returned, cl.connErr, stErr(st)))
			} else {
				if len(cl.sendErrs) > 0 {
					w.Violate("C11.b-send", "C11.b|none|senderr", fmt.Sprintf("client %d: Send failed without fault: %v", ci, cl.sendErrs[0]))
				}
				if st.frErr != nil || st.hsErr != nil {
					w.Violate("C11.b-c2s", "C11.b|none|server-rejects", fmt.Sprintf("client %d: spec server rejected the client's stream: %v", ci, stErr(st)))
				}
				sentCmp, recvCmp := cl.sentOK, st.received
				if p.Free {
					// concurrent senders: the server sees some interleaving of them; compare as multisets
					sentCmp, recvCmp = sortedCopy(cl.sentOK), sortedCopy(st.received)
				}
				if d := seqDiff(sentCmp, recvCmp); d != "" {
					w.Violate("C11.b-c2s", "C11.b|none|payload", fmt.Sprintf("client %d -> server: %s", ci, d))
				}
				if st.badPing != "" {
					w.Violate("C11.b-ping", "C11.b|none|ping", st.badPing)
				}
				if ref, _ := st.sess.ReferenceReceiver().Feed(c.Wire[core.S2C]); true {
					var exp [][]byte
					for _, s := range sentBy[ci] {
						if s.raw {
							break
						}
						exp = append(exp, s.payload)
					}
					refp := [][]byte{}
					if len(ref) > 0 {
						refp = nonPong(ref[1:])
					}
					if d := seqDiff(exp, refp); d != "" {
						w.Violate("harness-selfcheck", "harness-selfcheck|ref-nofault", "reference receiver disagrees with the send script: "+d)
					}
				}
				var want [][]byte
				cut := false
				for _, s := range sentBy[ci] {
					if s.raw {
						cut = true // an invalid declared length: nothing after it may be delivered
						break
					}
					want = append(want, s.payload)
				}
				got := nonPong(cl.got)
				if d := seqDiff(want, got); d != "" {
					cls := "C11.c|none|payload"
					if cut {
						cls = "C11.e|length-bound"
					}
					w.Violate("C11.c-s2c", cls, fmt.Sprintf("server -> client %d: %s", ci, d))
				}
			}
		} else if f.Dir == core.S2C {
			// (d) differential against a reference receiver fed with the bytes actually delivered:
			// it yields every frame that arrives unaltered before the first altered byte and nothing
			// from the altered frame on. The client must deliver exactly that.
			var ref [][]byte
			if st != nil && st.sess != nil {
				ref, _ = st.sess.ReferenceReceiver().Feed(c.Wire[core.S2C])
			}
			accepted := cl.returned && cl.connErr == nil
			if len(ref) == 0 && accepted {
				w.Violate("C11.d-handshake", "C11.d|"+tag+"|hs-accepted", fmt.Sprintf("client %d accepted an altered handshake confirmation", ci))
			}
			if len(ref) > 0 && !accepted {
				w.Violate("C11.a-handshake", "C11.a|"+tag, fmt.Sprintf("client %d: confirmation frame arrived intact (fault is later in the stream) but NewConnection returned=%v err=%v", ci, cl.returned, cl.connErr))
			}
			var want [][]byte
			if len(ref) > 0 {
				want = nonPong(ref[1:])
			}
			got := nonPong(cl.got)
			d := seqDiff(want, got)
			if d != "" && p.Free && len(got) < len(want) && seqDiff(want[:len(got)], got) == "" {
				// free-running mode: the concurrent senders notice the dead connection on their own (a failed write
				// starts the reconnect, which closes the socket) while the parser may not have consumed everything
				// that had arrived: intact frames behind that point are lost with the socket, legitimately. Nothing
				// may be invented or reordered.
				w.Probe("free-mode-intact-frames-lost-to-the-clients-own-close")
				d = ""
			}
			if d != "" {
				w.Violate("C11.d-s2c", "C11.d|"+tag, fmt.Sprintf("after %s in s2c frame %d (%s): client %d vs reference receiver on the same bytes: %s", f.Kind, f.Frame, f.Region, ci, d))
			}
		} else {
			// c2s altered: the spec server is the receiver. It must never extract a payload that was not sent,
			// and everything before the altered frame must have arrived (checks the client's framing from the other side).
			if st != nil && f.Frame > 0 {
				k := len(st.received)
				if p.Free {
					// concurrent senders: any order, but never a payload nobody handed to Send
					pool := map[string]int{}
					for _, b := range cl.tried {
						pool[string(b)]++
					}
					for _, b := range st.received {
						if pool[string(b)] == 0 {
							w.Violate("C11.d-c2s", "C11.d|"+tag, fmt.Sprintf("server extracted a %d-byte payload that was never sent", len(b)))
							break
						}
						pool[string(b)]--
					}
				} else if k > len(cl.sentOK) {
					w.Violate("C11.d-c2s", "C11.d|"+tag, fmt.Sprintf("server extracted %d payloads, client sent %d", k, len(cl.sentOK)))
				} else if d := seqDiff(cl.sentOK[:k], st.received); d != "" {
					w.Violate("C11.d-c2s", "C11.d|"+tag, "server extracted a payload that was never sent: "+d)
				}
				if st.frames < f.Frame-1 {
					w.Violate("C11.d-c2s", "C11.d|"+tag+"|count", fmt.Sprintf("fault in client frame %d: server extracted only %d frames before it", f.Frame, st.frames))
				}
			}
		}
		cl.mu.Unlock()
		if fired || w.Net.Fired["split"] > 0 {
			r.Nontrivial = true
		}
	}
	hs := fnv.New64a()
	fmt.Fprintf(hs, "%v|%v|%d", p.Faults, w.Net.Fired, len(p.Ops))
	w.Visit(hs.Sum64())
}

// c11judgeReconnect: the server dropped the connection of logical client ci (no byte was altered). Packets around the
// drop may be lost; nothing may be invented, reordered, duplicated or garbled, and once the client has a new session
// every packet it accepts has to arrive, in both directions.
func c11judgeReconnect(w *core.World, p *run.Plan, srv *c11server, ci int, cl *c11client) {
	sessions := srv.all[ci]
	if len(sessions) > 1 {
		w.Probe("reconnected-session")
	}
	var final *core.Conn
	var recv [][]byte
	for k, c := range sessions {
		st := srv.st(c)
		if st.frErr != nil || st.hsErr != nil {
			w.Violate("C11.b-c2s", "C11.b|reconnect|server-rejects", fmt.Sprintf("client %d, session %d of %d: the spec server rejected the client's stream although no byte was altered in transit: %s", ci, k+1, len(sessions), stErr(st)))
			return
		}
		if st.badPing != "" {
			w.Violate("C11.b-ping", "C11.b|reconnect|ping", st.badPing)
		}
		recv = append(recv, st.received...)
		if st.sess != nil {
			final = c
		}
	}
	if !cl.returned || cl.connErr != nil || final == nil {
		w.Probe("dropped-before-first-handshake")
		return
	}
	// c2s: what the server extracted is, in order, a selection of what was handed to Send (any order with concurrent senders)
	if p.Free {
		pool := map[string]int{}
		for _, b := range cl.tried {
			pool[string(b)]++
		}
		for _, b := range recv {
			if pool[string(b)] == 0 {
				w.Violate("C11.b-c2s", "C11.b|reconnect|payload", fmt.Sprintf("client %d: the server extracted a %d-byte payload that was never sent (or twice)", ci, len(b)))
				return
			}
			pool[string(b)]--
		}
	} else {
		i := 0
		for _, b := range recv {
			for i < len(cl.tried) && !bytes.Equal(cl.tried[i], b) {
				i++
			}
			if i == len(cl.tried) {
				w.Violate("C11.b-c2s", "C11.b|reconnect|payload", fmt.Sprintf("client %d: the server extracted a %d-byte payload (%x..) that was not sent, or out of order, or twice", ci, len(b), head(b)))
				return
			}
			i++
		}
	}
	fst := srv.st(final)
	if final.Alive() && final != sessions[0] {
		got := map[string]int{}
		for _, b := range fst.received {
			got[string(b)]++
		}
		for i, b := range cl.sentOK {
			if cl.sentAt[i] <= fst.sessAt {
				continue
			}
			if got[string(b)] == 0 {
				w.Violate("C11.b-c2s", "C11.b|reconnect|lost", fmt.Sprintf("client %d: Send of a %d-byte payload returned nil at %v, after the new session was established at %v, and the packet never arrived", ci, len(b), cl.sentAt[i], fst.sessAt))
				return
			}
			got[string(b)]--
		}
		w.Probe("reconnect-completeness-judged")
	}
	// s2c: per session the reference receiver on the delivered bytes; earlier sessions may be cut short
	got := nonPong(cl.got)
	idx := 0
	for k, c := range sessions {
		st := srv.st(c)
		if st.sess == nil {
			continue
		}
		ref, _ := st.sess.ReferenceReceiver().Feed(c.Wire[core.S2C])
		var frames [][]byte
		if len(ref) > 0 {
			frames = nonPong(ref[1:])
		}
		n := 0
		for n < len(frames) && idx+n < len(got) && bytes.Equal(frames[n], got[idx+n]) {
			n++
		}
		if c == final && final.Alive() && n < len(frames) {
			w.Violate("C11.c-s2c", "C11.c|reconnect|payload", fmt.Sprintf("server -> client %d over session %d (established after the drop, still up): %d packets arrived intact, the application received %d of them", ci, k+1, len(frames), n))
			return
		}
		idx += n
	}
	if idx < len(got) {
		w.Violate("C11.c-s2c", "C11.c|reconnect|invented", fmt.Sprintf("server -> client %d: the application received %d packets, only %d of them match what arrived on the wire in order", ci, len(got), idx))
	}
}

func sortedCopy(in [][]byte) [][]byte {
	out := append([][]byte{}, in...)
	sort.Slice(out, func(i, j int) bool { return bytes.Compare(out[i], out[j]) < 0 })
	return out
}

func dirName(d int) string {
	if d == core.C2S {
		return "c2s"
	}
	return "s2c"
}

func stErr(st *c11conn) string {
	if st == nil {
		return "no connection reached the server"
	}
	return fmt.Sprintf("hs=%v framing=%v", st.hsErr, st.frErr)
}

func nonPong(in [][]byte) [][]byte {
	var out [][]byte
	for _, b := range in {
		if len(b) >= 4 && binary.LittleEndian.Uint32(b) == magicPong {
			continue
		}
		out = append(out, b)
	}
	return out
}

func seqDiff(want, got [][]byte) string {
	if len(want) != len(got) {
		n := len(want)
		if len(got) < n {
			n = len(got)
		}
		for i := 0; i < n; i++ {
			if !bytes.Equal(want[i], got[i]) {
				return fmt.Sprintf("item %d differs (want %d bytes, got %d bytes); counts want=%d got=%d", i, len(want[i]), len(got[i]), len(want), len(got))
			}
		}
		return fmt.Sprintf("count differs: want=%d got=%d", len(want), len(got))
	}
	for i := range want {
		if !bytes.Equal(want[i], got[i]) {
			return fmt.Sprintf("item %d differs (want %d bytes %x.., got %d bytes %x..)", i, len(want[i]), head(want[i]), len(got[i]), head(got[i]))
		}
	}
	return ""
}

func head(b []byte) []byte {
	if len(b) > 8 {
		return b[:8]
	}
	return b
}

func init() {
	run.Register(&run.Engine{ID: "C11", Gen: genC11, Exec: execC11, Meta: run.Meta{
		Technique:   "deterministic simulation with fault injection: real liteclient ADNL client against an independent spec-level ADNL server over a simulated, faulty TCP byte stream (seeded segmentation, delay, one corruption per run)",
		Rule:        "one run = one plan drawn from (VERIF_SEED, index): 1-2 connections, up to 12 (quick) / 40 (thorough) packets per direction with sizes from the boundary classes 0..64 KiB (rarely 1 MiB and the 8 MiB limit), latencies 0..200 ms, split/coalesce on in 3/4 of runs, optional server frame with crafted declared length, and in 2/3 of runs exactly one stream fault (flip/subst/truncate/dup/drop/insert) in a chosen frame and region (len/nonce/payload/hash/handshake); in 1/6 of runs instead the server drops the connection mid-stream (reset, or orderly close with 0-2 vanishing writes), the client reconnects by itself and both directions are judged across the sessions (nothing invented, reordered, duplicated or garbled; everything accepted after the new session is up arrives). The context given to NewConnection is Background, or has a deadline of 1.5-3.5 s that passes while packets flow, or is cancelled as soon as NewConnection returns. Non-trivial = at least one split or stream fault actually fired; distinct = distinct event-log digest (schedule+bytes delivered) among non-trivial runs.",
		Real:        []string{"liteclient.NewConnection", "liteclient.Connection (Send, reader, ping)", "liteclient.encryptedConn (handshake, send, handleIncomingPackets)", "liteclient.ParsePacket / Packet.marshal", "liteclient key derivation (newKeys, sharedKey, params)"},
		Simulated:   []string{"TCP (simnet: per-direction segment queues, latency, split/coalesce, corruption, close)", "lite server = independent ADNL implementation (x/crypto curve25519 + math/big, own framer)", "clock (testing/synctest)", "crypto/rand and math/rand (seeded)", "goroutine interleaving at mutex acquisitions (sim-owned locks)"},
		Assumptions: []string{"SHA-256 collisions and AES-CTR keystream coincidences (2^-256 / 2^-8 per flipped byte of an encrypted length that still fails the checksum) do not occur", "the independent server follows the ADNL-over-TCP description: key id = sha256(0x4813b4c6|pub), X25519 of the Ed25519 keys, AES-CTR session params, frame = len|nonce|payload|sha256(nonce|payload)", "sampling, not enumeration: a clean batch is evidence, not proof"},
	}})
}
