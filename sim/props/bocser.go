package props

// A minimal bag-of-cells writer for harness-built cells (multi-root capable), written from the
// boc format description; used to hand attacker-built containers to the library.

func bocSerialize(roots ...*hcell) []byte {
	// topological order: a cell's references must come after it
	var order []*hcell
	index := map[*hcell]int{}
	var visit func(c *hcell)
	temp := map[*hcell]bool{}
	var post []*hcell
	visit = func(c *hcell) {
		if temp[c] {
			return
		}
		temp[c] = true
		for _, r := range c.refs {
			visit(r)
		}
		post = append(post, c)
	}
	for _, r := range roots {
		visit(r)
	}
	for i := len(post) - 1; i >= 0; i-- {
		index[post[i]] = len(order)
		order = append(order, post[i])
	}
	var data []byte
	for _, c := range order {
		n := len(c.bits)
		d1 := byte(len(c.refs))
		if c.exotic {
			d1 |= 8
		}
		d2 := byte(n/8 + (n+7)/8)
		data = append(data, d1, d2)
		buf := make([]byte, (n+7)/8)
		for i, b := range c.bits {
			if b {
				buf[i/8] |= 0x80 >> uint(i%8)
			}
		}
		if n%8 != 0 {
			buf[n/8] |= 0x80 >> uint(n%8)
		}
		data = append(data, buf...)
		for _, r := range c.refs {
			data = append(data, byte(index[r]>>8), byte(index[r]))
		}
	}
	const size = 2
	const offBytes = 4
	out := []byte{0xb5, 0xee, 0x9c, 0x72, size, offBytes}
	put := func(v, n int) {
		for i := n - 1; i >= 0; i-- {
			out = append(out, byte(v>>(8*uint(i))))
		}
	}
	put(len(order), size)
	put(len(roots), size)
	put(0, size)
	put(len(data), offBytes)
	for _, r := range roots {
		put(index[r], size)
	}
	return append(out, data...)
}
