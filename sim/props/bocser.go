package props

import (
	"encoding/binary"
	"hash/crc32"
)

// A minimal bag-of-cells writer for harness-built cells (multi-root capable), written from the
// boc format description; used to hand attacker-built containers to the library.

// bocStoredHash, when set for a cell, makes bocSerialize write that cell "with hashes": descriptor bit 16 and a
// stored (hash, depth) pair in front of its data - whatever the pair says.
var bocStoredHash = map[*hcell][34]byte{}

func bocSerialize(roots ...*hcell) []byte {
	// topological order: a cell's references must come after it
	var order []*hcell
	index := map[*hcell]int{}
	var visit func(c *hcell)
	temp := map[*hcell]bool{}
	var post []*hcell
	visit = func(c *hcell) {
		if temp[c] {
			return
		}
		temp[c] = true
		for _, r := range c.refs {
			visit(r)
		}
		post = append(post, c)
	}
	for _, r := range roots {
		visit(r)
	}
	for i := len(post) - 1; i >= 0; i-- {
		index[post[i]] = len(order)
		order = append(order, post[i])
	}
	var data []byte
	for _, c := range order {
		n := len(c.bits)
		d1 := byte(len(c.refs))
		if c.exotic {
			d1 |= 8
		}
		d2 := byte(n/8 + (n+7)/8)
		stored, withHashes := bocStoredHash[c]
		if withHashes {
			d1 |= 16
		}
		data = append(data, d1, d2)
		if withHashes {
			data = append(data, stored[:]...) // 32-byte hash, 2-byte depth (level 0: one of each)
		}
		buf := make([]byte, (n+7)/8)
		for i, b := range c.bits {
			if b {
				buf[i/8] |= 0x80 >> uint(i%8)
			}
		}
		if n%8 != 0 {
			buf[n/8] |= 0x80 >> uint(n%8)
		}
		data = append(data, buf...)
		for _, r := range c.refs {
			data = append(data, byte(index[r]>>8), byte(index[r]))
		}
	}
	const size = 2
	const offBytes = 4
	out := []byte{0xb5, 0xee, 0x9c, 0x72, size, offBytes}
	put := func(v, n int) {
		for i := n - 1; i >= 0; i-- {
			out = append(out, byte(v>>(8*uint(i))))
		}
	}
	put(len(order), size)
	put(len(roots), size)
	put(0, size)
	put(len(data), offBytes)
	for _, r := range roots {
		put(index[r], size)
	}
	return append(out, data...)
}

// bocCellDescriptors returns the offsets of the two descriptor bytes of every cell of a serialized bag of
// cells (generic "b5ee9c72" container), found by walking the cell data the way the format describes it.
// ok is false when the container does not parse far enough.
func bocCellDescriptors(b []byte) (offs []int, refSize int, ok bool) {
	if len(b) < 6 || b[0] != 0xb5 || b[1] != 0xee || b[2] != 0x9c || b[3] != 0x72 {
		return nil, 0, false
	}
	flags := b[4]
	size := int(flags & 7)
	hasIdx := flags&0x80 != 0
	offBytes := int(b[5])
	p := 6
	rd := func(n int) int {
		v := 0
		for i := 0; i < n && p < len(b); i++ {
			v = v<<8 | int(b[p])
			p++
		}
		return v
	}
	if size == 0 || size > 4 || offBytes == 0 || offBytes > 8 {
		return nil, 0, false
	}
	cells := rd(size)
	roots := rd(size)
	rd(size)
	rd(offBytes)
	p += roots * size
	if hasIdx {
		p += cells * offBytes
	}
	for i := 0; i < cells && p+2 <= len(b); i++ {
		offs = append(offs, p)
		d1, d2 := b[p], b[p+1]
		refs := int(d1 & 7)
		data := int(d2>>1) + int(d2&1)
		skip := 0
		if d1&16 != 0 { // stored hashes and depths
			lvl := 0
			for m := d1 >> 5; m != 0; m >>= 1 {
				lvl += int(m & 1)
			}
			skip = (lvl + 1) * 34
		}
		p += 2 + skip + data + refs*size
	}
	return offs, size, len(offs) > 0
}

// bocMutateDescriptor corrupts one cell of a container at the descriptor level: level mask, exotic flag,
// reference count, data length or exotic type byte. Exotic cells are preferred when pick is odd.
func bocMutateDescriptor(b []byte, pick, what, val int) []byte {
	offs, _, ok := bocCellDescriptors(b)
	if !ok {
		return b
	}
	out := append([]byte{}, b...)
	var exotic []int
	for _, o := range offs {
		if out[o]&8 != 0 {
			exotic = append(exotic, o)
		}
	}
	o := offs[pick%len(offs)]
	if pick%2 == 1 && len(exotic) > 0 {
		o = exotic[(pick/2)%len(exotic)]
	}
	switch what % 7 {
	case 6: // turn the cell into a pruned-branch stub whose level mask promises more stored hashes than its data holds
		if out[o+1] >= 4 && o+3 < len(out) { // at least two data bytes
			out[o] = out[o]&7 | 8 | byte(1+val%7)<<5
			out[o+2] = 1
			out[o+3] = byte(1 + val%7)
		}
	case 0: // level mask bits
		out[o] = out[o]&0x1f | byte(val&7)<<5
	case 1: // exotic flag
		out[o] ^= 8
	case 2: // reference count
		out[o] = out[o]&0xf8 | byte(val&7)
	case 3: // data length
		out[o+1] = byte(val)
	case 4: // first data byte (exotic type for exotic cells)
		if o+2 < len(out) {
			out[o+2] = byte(val % 6)
		}
	case 5: // "with hashes" flag
		out[o] ^= 16
	}
	return out
}

// bocFillCell overwrites the data of one cell of a container with a run of one-bits (optionally behind a single
// zero bit, optionally making the length a whole number of bytes) or with zeros: unary-coded lengths and labels
// then run to the very end of the cell.
func bocFillCell(b []byte, pick, how int) []byte {
	offs, _, ok := bocCellDescriptors(b)
	if !ok {
		return b
	}
	out := append([]byte{}, b...)
	o := offs[pick%len(offs)]
	d1, d2 := out[o], out[o+1]
	start := o + 2
	if d1&16 != 0 {
		lvl := 0
		for m := d1 >> 5; m != 0; m >>= 1 {
			lvl += int(m & 1)
		}
		start += (lvl + 1) * 34
	}
	n := int(d2>>1) + int(d2&1)
	if n == 0 || start+n > len(out) {
		return out
	}
	for i := 0; i < n; i++ {
		switch how % 4 {
		case 0:
			out[start+i] = 0xff
		case 1:
			out[start+i] = 0xff
			if i == 0 {
				out[start] = 0x7f // hml_short whose unary length runs to the end of the cell
			}
		case 3:
			out[start+i] = 0xff
			if i == 0 {
				out[start] = 0xef // hml_same$11 v=1 n=255 under a 256-bit key: a run of 255 one-bits
			}
		default:
			out[start+i] = 0
		}
	}
	if (how/4)%2 == 0 && d2&1 == 1 {
		out[o+1] = d2 + 1 // the same number of bytes, now all of them data: no completion tag
	}
	return out
}

// bocFixCRC recomputes the trailing CRC32-C of a container that carries one (flag 0x40 of the fifth byte), so that a
// mutation inside reaches the cell parser instead of being stopped by the checksum.
func bocFixCRC(b []byte) []byte {
	if len(b) < 9 || b[4]&0x40 == 0 {
		return b
	}
	out := append([]byte{}, b...)
	sum := crc32.Checksum(out[:len(out)-4], crc32.MakeTable(crc32.Castagnoli))
	binary.LittleEndian.PutUint32(out[len(out)-4:], sum)
	return out
}
