package props

import (
	"context"
	"crypto/ed25519"
	"crypto/hmac"
	"crypto/sha256"
	"encoding/base64"
	"encoding/binary"
	"encoding/hex"
	"errors"
	"fmt"
	"math/big"
	"runtime/debug"
	"sort"
	"strconv"
	"strings"
	"sync"
	"testing"
	"time"

	"github.com/tonkeeper/tongo/boc"
	"github.com/tonkeeper/tongo/tlb"
	"github.com/tonkeeper/tongo/ton"
	"github.com/tonkeeper/tongo/tonconnect"
	"github.com/tonkeeper/tongo/wallet"

	"verif/sim/core"
	"verif/sim/run"
)

// ---- authsim: wallet / adversarial channel / server / executor under one simulated clock ----

var c19versions = []wallet.Version{wallet.V1R1, wallet.V1R2, wallet.V1R3, wallet.V2R1, wallet.V2R2, wallet.V3R1, wallet.V3R2, wallet.V4R1, wallet.V4R2, wallet.V5Beta, wallet.V5R1}

var c19domains = []string{"example.com", "ton.app", "a", "xn--e1afmkfd.xn--p1ai", strings.Repeat("d", 120)}

type authExec struct {
	w     *core.World
	mode  int // 0 key, 1 error, 2 malformed stack, 3 short key, 4 exit code 11, 5 -2^256 (needs 257 bits), 6 tiny int, 7 zero
	key   []byte
	delay time.Duration
}

func (e *authExec) RunSmcMethodByID(ctx context.Context, accountID ton.AccountID, methodID int, params tlb.VmStack) (uint32, tlb.VmStack, error) {
	if e.delay > 0 {
		time.Sleep(e.delay)
	}
	switch e.mode {
	case 1:
		return 0, nil, errors.New("authsim: account not found")
	case 2:
		return 0, tlb.VmStack{{SumType: "VmStkNull"}, {SumType: "VmStkTinyInt", VmStkTinyInt: 5}}, nil
	case 3:
		k := new(big.Int).SetBytes(e.key[:16])
		return 0, tlb.VmStack{{SumType: "VmStkInt", VmStkInt: tlb.Int257(*k)}}, nil
	case 4:
		return 11, nil, nil
	case 5:
		// the most negative TVM integer: legal on the wire, magnitude needs 33 bytes
		k := new(big.Int).Neg(new(big.Int).Lsh(big.NewInt(1), 256))
		return 0, tlb.VmStack{{SumType: "VmStkInt", VmStkInt: tlb.Int257(*k)}}, nil
	case 6:
		return 0, tlb.VmStack{{SumType: "VmStkTinyInt", VmStkTinyInt: 5}}, nil
	case 7:
		return 0, tlb.VmStack{{SumType: "VmStkInt", VmStkInt: tlb.Int257(*big.NewInt(0))}}, nil
	}
	k := new(big.Int).SetBytes(e.key)
	return 0, tlb.VmStack{{SumType: "VmStkInt", VmStkInt: tlb.Int257(*k)}}, nil
}

// answers tells whether the executor yields a usable key.
func (e *authExec) answers() bool { return e.mode == 0 }

type c19server struct {
	srv         *tonconnect.Server
	secret      string
	lifePayload int64
	lifeProof   int64
}

type c19issued struct {
	secret  string
	payload string
	at      time.Duration
}

// reference construction of the signed message, from the ton-connect description
func c19message(wc int32, addr []byte, domain string, ts int64, payload string) []byte {
	var m []byte
	m = append(m, "ton-proof-item-v2/"...)
	m = binary.BigEndian.AppendUint32(m, uint32(wc))
	m = append(m, addr...)
	m = binary.LittleEndian.AppendUint32(m, uint32(len(domain)))
	m = append(m, domain...)
	m = binary.LittleEndian.AppendUint64(m, uint64(ts))
	m = append(m, payload...)
	inner := sha256.Sum256(m)
	full := append([]byte{0xff, 0xff}, "ton-connect"...)
	full = append(full, inner[:]...)
	out := sha256.Sum256(full)
	return out[:]
}

// c19keyFromStateInit is the reference extraction: the state-init must be a single-root BOC holding a
// known wallet code; the key sits at the version's offset in the data cell.
func c19keyFromStateInit(b64 string) (key []byte, hash [32]byte, ok bool) {
	defer func() {
		if x := recover(); x != nil {
			// the library's container parser crashed on this input: no key can be taken from it
			key, ok = nil, false
		}
	}()
	cells, err := boc.DeserializeBocBase64(b64)
	if err != nil || len(cells) != 1 {
		return nil, hash, false
	}
	si := fromLib(cells[0])
	si.compute()
	hash = si.hash
	rd := &bitReader{c: si}
	if rd.u(1) == 1 {
		rd.u(5)
	}
	if rd.u(1) == 1 {
		rd.u(2)
	}
	hasCode := rd.u(1) == 1
	hasData := rd.u(1) == 1
	rd.u(1)
	if rd.bad || !hasCode || !hasData || len(si.refs) < 2 {
		return nil, hash, false
	}
	code, data := si.refs[0], si.refs[1]
	for _, v := range c19versions {
		kc := fromLib(wallet.GetCodeByVer(v))
		kc.compute()
		if kc.hash != code.hash {
			continue
		}
		dr := &bitReader{c: data}
		switch c15family(v) {
		case "v1v2":
			dr.u(32)
		case "v3", "v4":
			dr.u(64)
		case "v5beta":
			dr.u(33)
			dr.u(80)
		case "v5r1":
			dr.u(65)
		}
		k := dr.bytes(32)
		if dr.bad {
			return nil, hash, false
		}
		return k, hash, true
	}
	return nil, hash, false
}

func genC19(seed uint64, index int, tier string) *run.Plan {
	g := core.NewRng(core.Mix(seed, 19))
	p := &run.Plan{Property: "C19", Tier: tier, Seed: seed, Index: index, P: map[string]int{}}
	p.P["ver"] = g.Intn(len(c19versions))
	p.P["wc"] = []int{0, 0, -1, 3}[g.Intn(4)]
	p.P["domain"] = g.Intn(len(c19domains))
	p.P["life_payload_s"] = []int{1, 5, 60, 300, 3600}[g.Intn(5)]
	p.P["life_proof_s"] = []int{1, 5, 60, 300, 3600}[g.Intn(5)]
	p.P["skew_s"] = []int{0, 0, 0, -1, 1, -30, 30, -600, 600}[g.Intn(9)]
	lp, lf := p.P["life_payload_s"]*1000, p.P["life_proof_s"]*1000
	p.P["sign_delay_ms"] = []int{0, 10, lp / 2, lf / 2, lp - 500, lp + 1500}[g.Intn(6)]
	if p.P["sign_delay_ms"] < 0 {
		p.P["sign_delay_ms"] = 0
	}
	p.P["exec"] = []int{0, 0, 0, 0, 1, 1, 2, 3, 4, 5, 6, 7}[g.Intn(12)]
	// how the application passes the payload and domain checks: the server's own methods, or wrappers that
	// follow the (verdict, nil) convention StaticDomain uses / report a mismatch as an error
	p.P["checker"] = []int{0, 0, 1, 2}[g.Intn(4)]
	p.P["exec_key"] = g.Intn(3) % 2 // 0: the wallet's key, 1: another key
	if g.Intn(5) == 0 {
		p.P["exec_delay_ms"] = []int{1, 500, 3000}[g.Intn(3)]
	}
	if g.Intn(3) == 0 {
		p.P["burst"] = 2 + g.Intn(4) // this many requests hit the server at the same instant
	}
	// alterations: every check delivers the wallet's proof with one of them applied
	nalt := 1 + g.Intn(2)
	for i := 0; i < nalt; i++ {
		alter := 0
		if g.Intn(5) != 0 {
			alter = 1 + g.Intn(24)
		}
		p.Faults = append(p.Faults, run.Fault{Kind: "alter", A: alter, B: g.Intn(1 << 16), C: g.Intn(8)})
	}
	poison := g.Intn(6) == 0
	if poison {
		// a legitimate login first, then an attack that reuses parts of it at the same server:
		// state kept between requests must not carry a verdict over to another address or key
		p.Faults = []run.Fault{{Kind: "alter", A: []int{0, 17}[g.Intn(2)], B: g.Intn(1 << 16)}, {Kind: "alter", A: []int{18, 5, 1, 10, 11, 12, 20, 9}[g.Intn(8)], B: g.Intn(1 << 16), C: g.Intn(8)}}
		p.P["exec"] = []int{1, 1, 2, 4, 0}[g.Intn(5)]
	}
	// checks: first delivery, then optional replays
	times := []int{10, 200, lp / 2, lf / 2, lp - 1500, lp + 1500, lf - 1500, lf + 1500, lp + lf + 5000, 2 * 3600 * 1000}
	n := 1 + g.Intn(3)
	if poison {
		n = 2 + g.Intn(2)
	}
	at := p.P["sign_delay_ms"]
	for i := 0; i < n; i++ {
		d := times[g.Intn(len(times))]
		if d < 0 {
			d = 0
		}
		if i == 0 || poison {
			d = []int{0, 10, 200, d}[g.Intn(4)]
			if poison {
				d = []int{0, 10, 200}[g.Intn(3)]
			}
		}
		at += d
		srv := 0
		if i > 0 && !poison && g.Intn(3) == 0 {
			srv = 1 + g.Intn(3)
		}
		which := g.Intn(len(p.Faults))
		if poison {
			which = i
			if which >= len(p.Faults) {
				which = len(p.Faults) - 1
			}
		}
		p.Ops = append(p.Ops, run.Op{Kind: "check", AtMs: at, A: srv, B: which})
	}
	if g.Intn(8) == 0 {
		p.P["zero_key"] = 1 // the wallet's public key starts with a zero byte
	}
	if g.Intn(120) == 0 {
		// a long-lived server: every check is made this many times more, one after the other (whatever a request
		// leaves behind in the server accumulates)
		p.P["repeat"] = []int{70, 150}[g.Intn(2)]
	}
	return p
}

func c19stateInitB64(si *hcell) string {
	s, err := toLibCell(si).ToBocBase64()
	if err != nil {
		return ""
	}
	return s
}

func c19flipB64(s string, pos int, std bool) string {
	raw, err := base64.StdEncoding.DecodeString(s)
	if err != nil || len(raw) == 0 {
		return s + "A"
	}
	raw[pos%len(raw)] ^= 1 << uint(pos%8)
	return base64.StdEncoding.EncodeToString(raw)
}

func execC19(t *testing.T, w *core.World, p *run.Plan, r *run.Result) {
	ver := c19versions[p.Get("ver", 0)%len(c19versions)]
	priv := c15key(p.Seed, 0)
	if p.Get("zero_key", 0) == 1 {
		// big-endian integers drop leading zero bytes: a key that starts with 0x00 exercises the padding
		for k := 100; k < 5000; k++ {
			cand := c15key(p.Seed, k)
			if cand.Public().(ed25519.PublicKey)[0] == 0 {
				priv = cand
				break
			}
		}
	}
	pub := priv.Public().(ed25519.PublicKey)
	apriv := c15key(p.Seed, 7) // attacker
	apub := apriv.Public().(ed25519.PublicKey)
	id := c15id{ver: ver, pub: pub, wc: p.Get("wc", 0), sub: -1}
	aid := c15id{ver: ver, pub: apub, wc: p.Get("wc", 0), sub: -1}
	domain := c19domains[p.Get("domain", 0)%len(c19domains)]
	var alters []run.Fault
	for _, f := range p.Faults {
		if f.Kind == "alter" {
			alters = append(alters, f)
		}
	}
	if len(alters) == 0 {
		alters = []run.Fault{{Kind: "alter"}}
	}
	ex := &authExec{w: w, mode: p.Get("exec", 0), key: pub, delay: time.Duration(p.Get("exec_delay_ms", 0)) * time.Millisecond}
	if p.Get("exec_key", 0) == 1 {
		ex.key = apub
	}
	mk := func(secret string, lp, lf int64) *c19server {
		s, err := tonconnect.NewTonConnect(ex, secret, tonconnect.WithLifeTimePayload(lp), tonconnect.WithLifeTimeProof(lf))
		if err != nil {
			w.Violate("harness-setup", "harness-setup", err.Error())
		}
		return &c19server{srv: s, secret: secret, lifePayload: lp, lifeProof: lf}
	}
	lp, lf := int64(p.Get("life_payload_s", 300)), int64(p.Get("life_proof_s", 300))
	servers := []*c19server{mk("secret-A", lp, lf), mk("secret-B", lp, lf), mk("secret-A", lp*10, lf*10)}
	// ... and one that relies on the documented defaults (300 s / 300 s), built after the customised ones:
	// options of one server must not leak into another
	if ds, err := tonconnect.NewTonConnect(ex, "secret-A"); err == nil {
		servers = append(servers, &c19server{srv: ds, secret: "secret-A", lifePayload: 300, lifeProof: 300})
	} else {
		w.Violate("harness-setup", "harness-setup", err.Error())
	}
	if len(w.Violations) > 0 {
		return
	}
	var vmu sync.Mutex
	pendingChecks := 0 // checker goroutines still running
	opsScheduled := 0  // check events that have fired
	nCheckOps := 0
	for _, op := range p.Ops {
		if op.Kind == "check" {
			nCheckOps++
		}
	}
	var issued []c19issued
	issue := func(si int) string {
		pl, err := servers[si].srv.GeneratePayload()
		if err != nil {
			w.Violate("C19.generate", "C19.generate", err.Error())
		}
		vmu.Lock()
		issued = append(issued, c19issued{secret: servers[si].secret, payload: pl, at: w.Now()})
		vmu.Unlock()
		return pl
	}
	payload := issue(0)
	otherPayload := issue(1) // issued under another secret
	secondPayload := issue(0)

	// the wallet signs at t1 with its own (skewed) clock
	var signed *tonconnect.Proof
	signAt := time.Duration(p.Get("sign_delay_ms", 0)) * time.Millisecond
	skew := time.Duration(p.Get("skew_s", 0)) * time.Second
	realState, err := wallet.GenerateStateInit(pub, ver, nil, id.wc, nil)
	if err != nil {
		w.Violate("harness-setup", "harness-setup", err.Error())
		return
	}
	addr := id.address()
	done := false
	type verdict struct {
		at       time.Duration
		srv      int
		ok       bool
		key      []byte
		err      error
		panicked any
		stack    string
		proof    tonconnect.Proof
		ord      int
		alter    int
	}
	var verdicts []verdict
	w.AtAbs(signAt, "wallet signs", func() {
		ts := time.Now().Add(skew)
		pr, err := tonconnect.CreateSignedProof(payload, addr, priv, realState, tonconnect.ProofOptions{Timestamp: ts, Domain: domain})
		if err != nil {
			w.Violate("C19.create", "C19.create", "CreateSignedProof: "+err.Error())
			done = true
			return
		}
		signed = pr
		w.Logf("proof signed")
		// what the library put into the proof is the wallet's initial state: it hashes to the wallet's address
		// (hand-built, section 5.5) and the address in the proof is that address
		if cells, err := boc.DeserializeBocBase64(pr.Proof.StateInit); err != nil || len(cells) != 1 {
			w.Violate("C19.create", "C19.create|state-init", fmt.Sprintf("the state-init in the created proof is not a single-root BOC: %v", err))
		} else {
			h := fromLib(cells[0])
			h.compute()
			if h.hash != [32]byte(addr.Address) {
				w.Violate("C19.create", "C19.create|state-init", fmt.Sprintf("%s wallet: the state-init in the created proof hashes to %x, the wallet's address is %s", ver.ToString(), h.hash, addr.ToRaw()))
			}
		}
		if pr.Address != addr.ToRaw() {
			w.Violate("C19.create", "C19.create|address", fmt.Sprintf("proof created for %s carries address %s", addr.ToRaw(), pr.Address))
		}
	})
	// ---- the channel: every delivery may alter the proof ----
	alterProof := func(proof *tonconnect.Proof, alter, aB, aC int) {
		resign := func(key ed25519.PrivateKey) {
			a, _ := ton.ParseAccountID(proof.Address)
			sig := ed25519.Sign(key, c19message(a.Workchain, a.Address[:], proof.Proof.Domain, proof.Proof.Timestamp, proof.Proof.Payload))
			proof.Proof.Signature = base64.StdEncoding.EncodeToString(sig)
		}
		setInit := func(si *hcell, withAddr bool) {
			proof.Proof.StateInit = c19stateInitB64(si)
			if withAddr {
				si.compute()
				proof.Address = ton.AccountID{Workchain: int32(id.wc), Address: si.hash}.ToRaw()
				resign(apriv)
			}
		}
		switch alter {
		case 1:
			proof.Address = aid.address().ToRaw()
		case 2:
			proof.Proof.Domain = c19domains[(p.Get("domain", 0)+1)%len(c19domains)]
		case 3:
			proof.Proof.Timestamp += []int64{1, -1, 60, -3600, 1 << 32, -(1 << 32), 1 << 40, 1 << 62}[aC%8]
		case 4:
			if aC%2 == 0 {
				proof.Proof.Payload = otherPayload
			} else {
				proof.Proof.Payload = secondPayload
			}
		case 5:
			resign(apriv)
		case 6:
			proof.Proof.Signature = c19flipB64(proof.Proof.Signature, aB, true)
		case 7:
			b := []byte(proof.Proof.Payload)
			i := aB % len(b)
			if b[i] == '0' {
				b[i] = '1'
			} else {
				b[i] = '0'
			}
			proof.Proof.Payload = string(b)
		case 8:
			b := []byte(proof.Address)
			i := len(b) - 1 - aB%64
			if b[i] == '0' {
				b[i] = '1'
			} else {
				b[i] = '0'
			}
			proof.Address = string(b)
		case 9:
			proof.Proof.StateInit = c19flipB64(proof.Proof.StateInit, aB, true)
		case 10: // unknown contract, address := hash(state-init), signed by the attacker
			code := (&hcell{}).u(uint64(aB), 16).u(0xdead, 16)
			setInit((&hcell{}).u(0b00110, 5).ref(code).ref(aid.dataCell(0)), true)
		case 11: // no code
			setInit((&hcell{}).u(0b00010, 5).ref(aid.dataCell(0)), true)
		case 12: // no data
			setInit((&hcell{}).u(0b00100, 5).ref(fromLib(wallet.GetCodeByVer(ver))), true)
		case 13: // two roots
			proof.Proof.StateInit = base64.StdEncoding.EncodeToString(bocSerialize(id.stateInit(), aid.stateInit()))
		case 14:
			proof.Proof.StateInit = []string{"!!!not-base64!!!", "AAAA", proof.Proof.StateInit[:len(proof.Proof.StateInit)/2], "te6ccgEBAQEAAgAAAA=="}[aC%4]
		case 15:
			proof.Proof.Payload = []string{proof.Proof.Payload[:62], proof.Proof.Payload + "00", proof.Proof.Payload[:63], "zz" + proof.Proof.Payload[2:], ""}[aC%5]
		case 16:
			raw, _ := base64.StdEncoding.DecodeString(proof.Proof.Signature)
			proof.Proof.Signature = []string{base64.StdEncoding.EncodeToString(raw[:63]), base64.StdEncoding.EncodeToString(append(raw, 0)), "***", ""}[aC%4]
		case 17: // the attacker's own wallet, fully consistent
			proof.Address = aid.address().ToRaw()
			proof.Proof.StateInit = c19stateInitB64(aid.stateInit())
			resign(apriv)
		case 18: // state-init of another wallet under the victim's address
			proof.Proof.StateInit = c19stateInitB64(aid.stateInit())
			resign(apriv)
		case 19: // no state-init at all
			proof.Proof.StateInit = ""
		case 24:
			// the attacker's own wallet state-init, serialized "with hashes": the stored root hash says it is the
			// victim's address (a parser that trusts stored hashes compares that, and reads the attacker's key)
			root := aid.stateInit()
			var sh [34]byte
			a := id.address()
			copy(sh[:32], a.Address[:])
			sh[33] = byte(1 + aC%3)
			bocStoredHash[root] = sh
			proof.Proof.StateInit = base64.StdEncoding.EncodeToString(bocSerialize(root))
			delete(bocStoredHash, root)
			resign(apriv)
		case 23:
			// one cell of the state-init container filled with one-bits (or zeros): unary lengths and dictionary
			// labels run to the end of the cell
			if raw, err := base64.StdEncoding.DecodeString(proof.Proof.StateInit); err == nil {
				proof.Proof.StateInit = base64.StdEncoding.EncodeToString(bocFixCRC(bocFillCell(raw, aB, aC)))
			}
		case 22:
			// the same account hash under another workchain number, also one that is congruent modulo 2^8 or 2^16
			// (a workchain is a signed 32-bit number in the signed message)
			if parts := strings.Split(proof.Address, ":"); len(parts) == 2 {
				wc, _ := strconv.ParseInt(parts[0], 10, 32)
				wc += []int64{256, -256, 512, 65536, -65536, 1 << 24, 1, -1, 128}[aC%9] * int64(1+aB%3)
				proof.Address = fmt.Sprintf("%d:%s", wc, parts[1])
			}
		case 21:
			// descriptor-level corruption of the state-init container (level mask, exotic flag, reference count,
			// data length, exotic type of one cell)
			if raw, err := base64.StdEncoding.DecodeString(proof.Proof.StateInit); err == nil {
				proof.Proof.StateInit = base64.StdEncoding.EncodeToString(bocFixCRC(bocMutateDescriptor(raw, aB, aC, aB>>3)))
			}
		case 20:
			// a contract whose code is in the server's table of wallet codes but whose data layout it cannot read
			// (the lockup wallet): no key can be taken from it. The attacker does not hold any key at all and
			// forges a signature for the all-zero key (a small-order point).
			lock := (&hcell{}).u(0b00110, 5).ref(fromLib(wallet.GetCodeByVer(wallet.V3R2Lockup))).ref((&hcell{}).u(uint64(aB), 32).bytes(apub).u(0, 64))
			lock.compute()
			proof.Address = ton.AccountID{Workchain: int32(id.wc), Address: lock.hash}.ToRaw()
			proof.Proof.StateInit = c19stateInitB64(lock)
			a, _ := ton.ParseAccountID(proof.Address)
			msg := c19message(a.Workchain, a.Address[:], proof.Proof.Domain, proof.Proof.Timestamp, proof.Proof.Payload)
			if sig, ok := forgeSmallOrder(msg, core.NewRng(core.Mix(p.Seed, uint64(aB)))); ok {
				proof.Proof.Signature = base64.StdEncoding.EncodeToString(sig)
				w.Probe("small-order-forgery-built")
			} else {
				w.Probe("small-order-forgery-failed")
			}
		}
	}

	for i, op := range p.Ops {
		if op.Kind != "check" {
			continue
		}
		op := op
		last := i == len(p.Ops)-1
		w.AtAbs(time.Duration(op.AtMs)*time.Millisecond+time.Duration(i+1)*time.Microsecond, fmt.Sprintf("check@server%d", op.A), func() {
			vmu.Lock()
			opsScheduled++
			vmu.Unlock()
			if signed == nil {
				return
			}
			alt := alters[op.B%len(alters)]
			delivered := *signed
			alterProof(&delivered, alt.A, alt.B, alt.C)
			proof := &delivered
			burst := p.Get("burst", 1)
			if burst < 1 {
				burst = 1
			}
			if p.Free && burst < 3 {
				burst = 3 // free-running mode exists for what concurrent requests do to shared state
			}
			var wg sync.WaitGroup
			defer func() { _ = &wg }()
			for b := 0; b < burst; b++ {
				b := b
				pr := *proof
				wg.Add(1)
				vmu.Lock()
				pendingChecks++
				vmu.Unlock()
				go func() {
					defer wg.Done()
					w.Tag(fmt.Sprintf("checker-%d", b))
					if b%2 == 1 {
						// other clients fetch payloads while proofs are being checked
						func() {
							defer func() { _ = recover() }()
							issue(op.A % len(servers))
						}()
					}
					for k := 0; k <= p.Get("repeat", 0); k++ {
						if k > 0 {
							time.Sleep(time.Millisecond)
						}
						v := verdict{at: w.Now(), srv: op.A, proof: pr, ord: (i*16+b)*256 + k, alter: alt.A}
						func() {
							defer func() {
								if x := recover(); x != nil {
									v.panicked = x
									v.stack = repoFrames(string(debug.Stack()))
								}
							}()
							s := servers[op.A%len(servers)]
							checkPayload, checkDomain := s.srv.CheckPayload, (func(string) (bool, error))(tonconnect.StaticDomain(domain))
							switch p.Get("checker", 0) {
							case 1:
								srv := s.srv
								checkPayload = func(pl string) (bool, error) { ok, _ := srv.CheckPayload(pl); return ok, nil }
							case 2:
								checkDomain = func(d string) (bool, error) {
									if d != domain {
										return false, errors.New("authsim: unknown domain")
									}
									return true, nil
								}
							}
							v.ok, v.key, v.err = s.srv.CheckProof(context.Background(), &pr, checkPayload, checkDomain)
						}()
						vmu.Lock()
						verdicts = append(verdicts, v)
						vmu.Unlock()
					}
					vmu.Lock()
					pendingChecks--
					vmu.Unlock()
				}()
			}
			_ = last
		})
	}
	w.Run(func() bool {
		vmu.Lock()
		defer vmu.Unlock()
		return done || (opsScheduled == nCheckOps && pendingChecks == 0)
	}, 200000, 12*time.Hour)
	vmu.Lock()
	defer vmu.Unlock()
	if pendingChecks > 0 && !done && w.Steps < 200000 {
		w.Violate("C19.no-return", "C19.no-return", fmt.Sprintf("%d CheckProof calls have not returned after %v of simulated time with nothing left to wait for (%d verdicts so far; executor mode %d)", pendingChecks, w.Now(), len(verdicts), ex.mode))
	}
	r.Nontrivial = len(verdicts) > 0
	sort.SliceStable(verdicts, func(i, j int) bool { return verdicts[i].ord < verdicts[j].ord })

	for _, v := range verdicts {
		s := servers[v.srv%len(servers)]
		pr := v.proof
		alter := v.alter
		alt := "alter" + strconv.Itoa(alter)
		if v.panicked != nil {
			w.Violate("C19.panic", "C19.panic|"+stripNums(fmt.Sprint(v.panicked)), fmt.Sprintf("CheckProof panicked on %s (executor mode %d): %v at %s", alt, ex.mode, v.panicked, v.stack))
			continue
		}
		// ---- reference acceptance model on what was delivered ----
		band := false
		reason := ""
		// (1) payload issued under this server's secret and not expired
		plOK := false
		for _, is := range issued {
			if is.secret == s.secret && is.payload == pr.Proof.Payload {
				age := v.at - is.at
				lim := time.Duration(s.lifePayload) * time.Second
				if age > lim-time.Second && age < lim+time.Second {
					band = true
				}
				plOK = age <= lim
				if !plOK {
					reason = "payload expired"
				}
			}
		}
		if !plOK && reason == "" {
			reason = "payload not issued under this secret"
			// a well-formed 32-byte payload with a correct HMAC that we did not issue cannot exist; check the HMAC anyway
			if raw, err := hex.DecodeString(pr.Proof.Payload); err == nil && len(raw) == 32 {
				mac := hmac.New(sha256.New, []byte(s.secret))
				mac.Write(raw[:16])
				if hmac.Equal(mac.Sum(nil)[:16], raw[16:]) {
					w.Violate("harness-selfcheck", "harness-selfcheck|hmac", "a payload with a valid HMAC is unknown to the harness")
				}
			}
		}
		accept := plOK
		// (2) proof timestamp not expired
		nowUnix := w.StartTime().Add(v.at)
		age := nowUnix.Sub(time.Unix(pr.Proof.Timestamp, 0))
		lim := time.Duration(s.lifeProof) * time.Second
		if age > lim-time.Second && age < lim+time.Second {
			band = true
		}
		if age > lim {
			accept = false
			if reason == "" {
				reason = "proof expired"
			}
		}
		// (3) domain
		if pr.Proof.Domain != domain {
			accept = false
			reason += " domain"
		}
		// (4) address, (5) key
		var K []byte
		parts := strings.Split(pr.Address, ":")
		var pwc int64
		var paddr []byte
		addrOK := false
		if len(parts) == 2 {
			var e1, e2 error
			pwc, e1 = strconv.ParseInt(parts[0], 10, 32)
			paddr, e2 = hex.DecodeString(parts[1])
			addrOK = e1 == nil && e2 == nil && len(paddr) == 32
		}
		if !addrOK {
			accept = false
			reason += " address"
		} else if ex.answers() {
			K = ex.key
		} else if pr.Proof.StateInit != "" {
			k, h, ok := c19keyFromStateInit(pr.Proof.StateInit)
			if ok && string(h[:]) == string(paddr) {
				K = k
			}
		}
		if K == nil {
			accept = false
			reason += " no-key"
		}
		// (6) signature over exactly the delivered fields
		if accept {
			sig, err := base64.StdEncoding.DecodeString(pr.Proof.Signature)
			if err != nil || len(sig) != ed25519.SignatureSize || !ed25519.Verify(K, c19message(int32(pwc), paddr, pr.Proof.Domain, pr.Proof.Timestamp, pr.Proof.Payload), sig) {
				accept = false
				reason += " signature"
			}
		} else if K != nil {
			// still note whether the signature would verify (statistics only)
		}
		st := fmt.Sprintf("%s|exec%d|srv%d|accept=%v|%s", alt, ex.mode, v.srv, accept, strings.TrimSpace(reason))
		w.Visit(hash64(st))
		if band {
			w.Probe("expiry-band-dont-care")
			continue
		}
		implAccept := v.ok && v.err == nil
		if v.ok != (v.err == nil) {
			w.Violate("C19.result", "C19.result|inconsistent", fmt.Sprintf("CheckProof returned ok=%v err=%v", v.ok, v.err))
		}
		if implAccept && !accept {
			w.Violate("C19.accept", "C19.accept-wrong|"+strings.TrimSpace(reason), fmt.Sprintf("%s: accepted a proof the reference rejects (%s; executor mode %d key=%d; server %d at +%v)", alt, reason, ex.mode, p.Get("exec_key", 0), v.srv, v.at))
		}
		if !implAccept && accept && (alter == 9 || alter == 21 || alter == 23) && !ex.answers() {
			// a flipped bit of the state-init container can change parts of a cell the harness' level-0
			// hasher does not model (level mask, stored hashes): the library may legitimately find that
			// the container no longer hashes to the address. Only the accepting direction is judged here.
			w.Probe("flipped-state-init-reject-not-judged")
		} else if !implAccept && accept {
			w.Violate("C19.reject", "C19.reject-wrong", fmt.Sprintf(alt+": rejected a proof the reference accepts: err=%v (executor mode %d; server %d at +%v)", v.err, ex.mode, v.srv, v.at))
		}
		if implAccept && accept && string(v.key) != string(K) {
			w.Violate("C19.key", "C19.key-wrong", fmt.Sprintf("returned key %x, controlling key is %x", v.key, K))
		}
		if accept {
			w.Probe("accepted")
		} else {
			w.Probe("rejected")
		}
	}
}

func stripNums(s string) string {
	var b strings.Builder
	prev := false
	for _, r := range s {
		if r >= '0' && r <= '9' {
			if !prev {
				b.WriteByte('N')
			}
			prev = true
			continue
		}
		prev = false
		b.WriteRune(r)
	}
	out := b.String()
	if len(out) > 80 {
		out = out[:80]
	}
	return out
}

func init() {
	run.Register(&run.Engine{ID: "C19", Gen: genC19, Exec: execC19, Meta: run.Meta{
		Technique:   "deterministic simulation: three-party timed protocol (wallet, adversarial channel, server) plus a failing/lying get-method executor under one simulated clock; reference acceptance model as oracle",
		Rule:        "one run = a history: the server issues payloads, a wallet (version x key x workchain, clock skew up to +-10 min) signs after a drawn delay, the channel delivers the proof unaltered or with one of 24 alterations (field substitutions, bit flips, attacker-built state-inits incl. no code / no data / unknown contract / multi-root / garbage, wrong-length payload or signature, full attacker proof, descriptor-level container corruption, small-order key forgery, the same account hash under a congruent workchain number), the server checks it 1-3 times at drawn instants around the payload/proof lifetimes, possibly at a server with another secret or other lifetimes, with an executor that answers with the wallet's key, another key, an error, a malformed stack, a short key, a failure exit code, -2^256, a tiny integer or zero, possibly after a delay; the payload and domain checks are passed as the server's own methods, as (verdict, nil) wrappers or as error-reporting wrappers. Non-trivial = at least one check ran; distinct = distinct event-log digest. Abstract state = (alteration, executor mode, server, reference verdict and reason).",
		Real:        []string{"tonconnect.Server: GeneratePayload, CheckPayload, CheckProof, ParseStateInit, getWalletPubKey", "tonconnect.CreateSignedProof", "abi.GetPublicKey decoding of the executor's stack", "wallet.GenerateStateInit, ton.ParseAccountID, boc/tlb decoders underneath"},
		Simulated:   []string{"clock (testing/synctest) incl. wallet clock skew", "the channel between wallet and server (adversary)", "the abi.Executor party", "crypto/rand (seeded)"},
		Assumptions: []string{"within +-1 s of an expiry boundary the verdict is not judged (the implementation truncates to Unix seconds; the property does not fix the rounding)", "proof timestamps in the future are not judged as expired", "alteration 20 forges a signature for the all-zero key (an Ed25519 point of order 4) with github.com/oasisprotocol/curve25519-voi; other small-order keys are not tried", "boc.DeserializeBocBase64 is trusted to enumerate the cells of a state-init; the key offset per wallet version is laid out by the harness"},
	}})
}

// repoFrames extracts the function names under the repository from a stack dump (innermost first).
func repoFrames(stack string) string {
	var out []string
	for _, l := range strings.Split(stack, "\n") {
		if strings.HasPrefix(l, "github.com/tonkeeper/tongo/") {
			f := strings.TrimPrefix(l, "github.com/tonkeeper/tongo/")
			if i := strings.LastIndex(f, "("); i > 0 {
				f = f[:i]
			}
			out = append(out, f)
			if len(out) >= 5 {
				break
			}
		}
	}
	return strings.Join(out, " < ")
}
