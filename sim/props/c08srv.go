package props

import (
	"context"
	"crypto/ed25519"
	"encoding/base64"
	"encoding/binary"
	"fmt"
	"os"
	"runtime/debug"
	"strings"
	"sync"
	"testing"
	"time"

	"github.com/tonkeeper/tongo/boc"
	"github.com/tonkeeper/tongo/config"
	"github.com/tonkeeper/tongo/liteapi"
	"github.com/tonkeeper/tongo/tlb"
	"github.com/tonkeeper/tongo/ton"
	"github.com/tonkeeper/tongo/wallet"

	"verif/sim/core"
	"verif/sim/litesrv"
	"verif/sim/run"
	"verif/sim/tlref"
)

// ---- material for valid answers (real blocks and proofs from the repository's test data, values the
// library's own encoders produce; sharing code with the system under test is harmless here: the oracle
// is totality, not conformance) ----

type c08material struct {
	blocks       [][]byte
	headerProofs [][]byte
	txBocs       [][]byte // single-root transaction BOCs
	txMulti      []byte   // multi-root BOC with several transactions
	txMultiN     int
	configProofs [][]byte
	accountBoc   []byte
	stateProof   []byte // two roots, second one a MerkleProof[ShardStateUnsplit]
	stackBoc     []byte
	shardsBoc    []byte
	libBoc       []byte
	extMsg       []byte
	err          error
}

var (
	c08once sync.Once
	c08mat  c08material
)

func c08load() *c08material {
	c08once.Do(func() {
		m := &c08mat
		for i := 1; i <= 5; i++ {
			b, err := os.ReadFile(fmt.Sprintf("/repo/tlb/testdata/block-%d/block.bin", i))
			if err != nil {
				continue
			}
			cells, err := boc.DeserializeBoc(b)
			if err != nil || len(cells) != 1 {
				continue
			}
			m.blocks = append(m.blocks, b)
			// header proof: a merkle-proof cell over the whole block
			pc := boc.NewCellExotic(boc.MerkleProofCell)
			h, err := cells[0].Hash()
			if err == nil {
				_ = pc.WriteUint(3, 8)
				_ = pc.WriteBytes(h)
				_ = pc.WriteUint(64, 16)
				_ = pc.AddRef(cells[0])
				if pb, err := pc.ToBoc(); err == nil {
					m.headerProofs = append(m.headerProofs, pb)
				}
			}
			if i == 1 {
				// transaction cells: every ordinary cell with the transaction tag that decodes as one
				seen := map[*boc.Cell]bool{}
				var txs []*boc.Cell
				var walk func(c *boc.Cell)
				walk = func(c *boc.Cell) {
					if seen[c] || len(txs) >= 12 {
						return
					}
					seen[c] = true
					if !c.IsExotic() && c.BitSize() > 4 {
						c.ResetCounters()
						if v, err := c.PickUint(4); err == nil && v == 7 {
							var tx tlb.Transaction
							if tlb.Unmarshal(c, &tx) == nil {
								txs = append(txs, c)
							}
							c.ResetCounters()
						}
					}
					for _, r := range c.Refs() {
						walk(r)
					}
				}
				walk(cells[0])
				var roots []*hcell
				memo := map[*boc.Cell]*hcell{}
				for k, c := range txs {
					c.ResetCounters()
					if b, err := c.ToBoc(); err == nil && k < 4 {
						m.txBocs = append(m.txBocs, b)
					}
					if k < 5 {
						roots = append(roots, fromLibMemo(c, memo))
					}
				}
				if len(roots) > 0 {
					m.txMulti = bocSerialize(roots...)
					m.txMultiN = len(roots)
				}
			}
		}
		for _, f := range []string{"/repo/ton/testdata/config_proof_4324374.boc", "/repo/ton/testdata/config_proof_33651872.boc"} {
			if b, err := os.ReadFile(f); err == nil {
				m.configProofs = append(m.configProofs, b)
			}
		}
		// an active wallet account
		priv := ed25519.NewKeyFromSeed(make([]byte, 32))
		id := c15id{ver: wallet.V4R2, pub: priv.Public().(ed25519.PublicKey), wc: 0, sub: -1}
		var acc tlb.Account
		acc.SumType = "Account"
		aid := id.address()
		acc.Account.Addr = aid.ToMsgAddress()
		acc.Account.StorageStat.StorageExtra.SumType = "StorageExtraNone"
		acc.Account.Storage.State.SumType = "AccountActive"
		acc.Account.Storage.State.AccountActive.StateInit.Code = tlb.Maybe[tlb.Ref[boc.Cell]]{Exists: true, Value: tlb.Ref[boc.Cell]{Value: *wallet.GetCodeByVer(wallet.V4R2)}}
		acc.Account.Storage.State.AccountActive.StateInit.Data = tlb.Maybe[tlb.Ref[boc.Cell]]{Exists: true, Value: tlb.Ref[boc.Cell]{Value: *toLibCell(id.dataCell(7))}}
		ac := boc.NewCell()
		if err := tlb.Marshal(ac, acc); err == nil {
			m.accountBoc, _ = ac.ToBoc()
		} else {
			m.err = fmt.Errorf("account marshal: %w", err)
		}
		// state proof: root 0 arbitrary, root 1 = MerkleProof[ShardStateUnsplit] over a (zero) shard state
		var st tlb.ShardStateUnsplit
		sc := boc.NewCell()
		if err := tlb.Marshal(sc, st); err == nil {
			sh := fromLib(sc)
			sh.compute()
			proof := (&hcell{exotic: true}).u(3, 8).bytes(sh.hash[:]).u(uint64(sh.depth), 16).ref(sh)
			root0 := (&hcell{}).u(0xabcdef, 24)
			m.stateProof = bocSerialize(root0, proof)
		} else {
			m.err = fmt.Errorf("shard state marshal: %w", err)
		}
		stack := tlb.VmStack{{SumType: "VmStkTinyInt", VmStkTinyInt: 7}}
		stc := boc.NewCell()
		if err := tlb.Marshal(stc, stack); err == nil {
			m.stackBoc, _ = stc.ToBoc()
		}
		var inf tlb.AllShardsInfo
		shc := boc.NewCell()
		if err := tlb.Marshal(shc, inf); err == nil {
			m.shardsBoc, _ = shc.ToBoc()
		}
		m.libBoc, _ = wallet.GetCodeByVer(wallet.V3R2).ToBoc()
		body := boc.NewCell()
		_ = body.WriteUint(0xdeadbeef, 32)
		if msg, err := ton.CreateExternalMessage(id.address(), body, nil, tlb.VarUInteger16{}); err == nil {
			mc := boc.NewCell()
			if tlb.Marshal(mc, msg) == nil {
				m.extMsg, _ = mc.ToBoc()
			}
		}
		if len(m.blocks) == 0 || len(m.txBocs) == 0 || len(m.configProofs) == 0 {
			m.err = fmt.Errorf("test data under /repo/tlb/testdata or /repo/ton/testdata is missing (blocks=%d txs=%d configs=%d)", len(m.blocks), len(m.txBocs), len(m.configProofs))
		}
	})
	return &c08mat
}

var c08kinds = []string{"getblock", "header", "lookup", "account", "txs", "onetx", "shards", "config", "configparams", "libs", "runmethod", "seqno", "mcinfo", "time", "version", "sendmsg", "listtx", "shardinfo", "blockproof", "state"}

var c08muts = []string{"none", "tl-truncate", "tl-mark", "tl-mark", "tl-set32", "boc-flip", "boc-set", "boc-truncate", "ids-short", "ctor-swap", "err-huge", "boc-roots", "boc-roots", "adnl-len", "adnl-dup", "boc-desc", "boc-desc", "boc-fill", "boc-fill"}

// a well-formed bag of cells with one cell and no root
var c08zeroRootBoc = []byte{0xb5, 0xee, 0x9c, 0x72, 0x01, 0x01, 0x01, 0x00, 0x00, 0x02, 0x00, 0x00}

func genC08srv(g *core.SplitMix64, p *run.Plan, tier string) {
	p.P["engine"] = 1
	p.P["timeout_ms"] = []int{2000, 5000, 10000}[g.Intn(3)] + g.Intn(50)
	p.P["split"] = g.Intn(2)
	n := 1 + g.Intn(6)
	if tier == "thorough" {
		n = 1 + g.Intn(20)
	}
	for i := 0; i < n; i++ {
		op := run.Op{Kind: c08kinds[g.Intn(len(c08kinds))], A: g.Intn(5)}
		p.Ops = append(p.Ops, op)
		mut := c08muts[g.Intn(len(c08muts))]
		if mut != "none" {
			p.Faults = append(p.Faults, run.Fault{Kind: mut, Conn: i, A: g.Intn(1000), B: g.Intn(16), C: g.Intn(256)})
		}
	}
}

type c08answerCtx struct {
	kind   string
	fault  *run.Fault
	used   bool
	size   int
	mutKey string
}

// mutateBoc applies a container-level mutation to an embedded bag of cells.
func c08mutateBoc(b []byte, f *run.Fault) []byte {
	if f == nil || len(b) == 0 {
		return b
	}
	out := append([]byte{}, b...)
	switch f.Kind {
	case "boc-flip":
		off := f.A * len(out) / 1000
		if off >= len(out) {
			off = len(out) - 1
		}
		out[off] ^= 1 << uint(f.B%8)
	case "boc-set":
		// header fields: flags/size byte, offset size, cell count, root count, absent count, total size, root index
		off := 4 + f.B%12
		if off < len(out) {
			out[off] = byte(f.C)
		}
	case "boc-truncate":
		out = out[:f.A*len(out)/1000]
	case "boc-desc":
		out = bocMutateDescriptor(out, f.A, f.B, f.C)
	case "boc-fill":
		out = bocFillCell(out, f.A, f.B)
	}
	if f.Kind != "boc-truncate" && f.C%4 != 0 {
		// three quarters of the mutated containers get a fresh checksum: the mutation reaches the cell parser and the
		// decoders behind it instead of stopping at the CRC
		out = bocFixCRC(out)
	}
	return out
}

func execC08srv(t *testing.T, w *core.World, p *run.Plan, r *run.Result) {
	mat := c08load()
	if mat.err != nil {
		w.Violate("harness-setup", "harness-setup", mat.err.Error())
		return
	}
	sch := liteSchema()
	srv := litesrv.New(w, serverKeyFromSeed(p.Seed, 0), sch, 0, 500)
	h := w.Net.AddHost("sim:0", srv)
	srv.Host = h
	h.Latency[core.C2S] = core.LatencyModel{BaseUs: 200}
	h.Latency[core.S2C] = core.LatencyModel{BaseUs: 200}
	w.Net.Split = p.Get("split", 0) == 1
	w.Providers = append(w.Providers, srv.Actions)
	timeout := time.Duration(p.Get("timeout_ms", 5000)) * time.Millisecond

	var mu sync.Mutex
	var cur *c08answerCtx
	blockID := func(wr *tlref.W, seqno uint32) {
		root, file := litesrv.BlockID(seqno)
		wr.U32(0xffffffff).U64(0x8000000000000000).U32(seqno).Raw(root[:]).Raw(file[:])
	}
	id := func(name string) uint32 { return sch.ID(name) }
	// fnKind maps function ids to workload kinds (to find the query an op is waiting for)
	fnKind := map[uint32][]string{
		id("liteServer.getBlock"): {"getblock"}, id("liteServer.getBlockHeader"): {"header"}, id("liteServer.lookupBlock"): {"lookup"},
		id("liteServer.getAccountState"): {"account"}, id("liteServer.getTransactions"): {"txs"}, id("liteServer.getOneTransaction"): {"onetx"},
		id("liteServer.getAllShardsInfo"): {"shards"}, id("liteServer.getConfigAll"): {"config"}, id("liteServer.getConfigParams"): {"configparams"},
		id("liteServer.getLibraries"): {"libs"}, id("liteServer.runSmcMethod"): {"runmethod", "seqno"}, id("liteServer.getMasterchainInfo"): {"mcinfo"},
		id("liteServer.getTime"): {"time"}, id("liteServer.getVersion"): {"version"}, id("liteServer.sendMessage"): {"sendmsg"},
		id("liteServer.listBlockTransactions"): {"listtx"}, id("liteServer.getShardInfo"): {"shardinfo"}, id("liteServer.getBlockProof"): {"blockproof"},
		id("liteServer.getState"): {"state"},
	}
	srv.Custom = func(s *litesrv.Server, c *core.Conn, fn uint32, rd *tlref.R) []byte {
		mu.Lock()
		defer mu.Unlock()
		var ctx *c08answerCtx
		if cur != nil && !cur.used {
			for _, k := range fnKind[fn] {
				if k == cur.kind {
					ctx = cur
				}
			}
		}
		var f *run.Fault
		variant := 0
		if ctx != nil {
			f = ctx.fault
			ctx.used = true
		}
		if f != nil {
			variant = f.B
		}
		bocOf := func(b []byte) []byte {
			if f != nil && strings.HasPrefix(f.Kind, "boc-") && f.Kind != "boc-roots" {
				return c08mutateBoc(b, f)
			}
			return b
		}
		pick := func(list [][]byte) []byte { return list[variant%len(list)] }
		wrongRoots := mat.txMulti // several roots where one is expected
		if f != nil && f.C%2 == 1 {
			wrongRoots = c08zeroRootBoc // no root at all
		}
		rootsLie := f != nil && f.Kind == "boc-roots"
		wr := &tlref.W{}
		switch fn {
		case id("liteServer.getBlock"):
			wr.U32(id("liteServer.blockData"))
			blockID(wr, 500)
			if rootsLie {
				wr.Bytes(wrongRoots)
			} else {
				wr.Bytes(bocOf(pick(mat.blocks)))
			}
		case id("liteServer.getState"):
			wr.U32(id("liteServer.blockState"))
			blockID(wr, 500)
			wr.I256(nil).I256(nil).Bytes(bocOf(mat.accountBoc))
		case id("liteServer.getBlockHeader"):
			wr.U32(id("liteServer.blockHeader"))
			blockID(wr, 500)
			if rootsLie {
				wr.Mode(0).Bytes(wrongRoots)
			} else {
				wr.Mode(0).Bytes(bocOf(pick(mat.headerProofs)))
			}
		case id("liteServer.lookupBlock"):
			if ctx == nil {
				return nil // the pool's own long-poll: answered by the default handler
			}
			wr.U32(id("liteServer.blockHeader"))
			blockID(wr, 500)
			wr.Mode(0).Bytes(bocOf(pick(mat.headerProofs)))
		case id("liteServer.getAccountState"):
			wr.U32(id("liteServer.accountState"))
			blockID(wr, 500)
			blockID(wr, 500)
			proof := mat.stateProof
			state := mat.accountBoc
			if rootsLie {
				proof = mat.accountBoc // one root where two are needed
				if f.C%3 == 0 {
					state = wrongRoots
				}
			}
			wr.Bytes([]byte{}).Bytes(bocOf(proof)).Bytes(bocOf(state))
		case id("liteServer.getTransactions"):
			wr.U32(id("liteServer.transactionList"))
			n := mat.txMultiN
			if f != nil && f.Kind == "ids-short" {
				n = f.A % (mat.txMultiN) // fewer ids than transactions in the bag
			}
			wr.Count(n)
			for i := 0; i < n; i++ {
				blockID(wr, 500)
			}
			wr.Bytes(bocOf(mat.txMulti))
		case id("liteServer.getOneTransaction"):
			wr.U32(id("liteServer.transactionInfo"))
			blockID(wr, 500)
			tx := pick(mat.txBocs)
			if f != nil && f.Kind == "boc-roots" {
				tx = wrongRoots
			}
			wr.Bytes([]byte{}).Bytes(bocOf(tx))
		case id("liteServer.getAllShardsInfo"):
			wr.U32(id("liteServer.allShardsInfo"))
			blockID(wr, 500)
			sh := mat.shardsBoc
			if f != nil && f.Kind == "boc-roots" {
				sh = wrongRoots
			}
			wr.Bytes([]byte{}).Bytes(bocOf(sh))
		case id("liteServer.getConfigAll"), id("liteServer.getConfigParams"):
			wr.U32(id("liteServer.configInfo")).Mode(0)
			blockID(wr, 500)
			wr.Bytes([]byte{}).Bytes(bocOf(pick(mat.configProofs)))
		case id("liteServer.getLibraries"):
			wr.U32(id("liteServer.libraryResult")).Count(2)
			lib := mat.libBoc
			if f != nil && f.Kind == "boc-roots" {
				lib = wrongRoots
			}
			wr.I256([]byte{1}).Bytes(bocOf(lib))
			wr.I256([]byte{2}).Bytes(mat.libBoc)
		case id("liteServer.runSmcMethod"):
			wr.U32(id("liteServer.runMethodResult")).Mode(4)
			blockID(wr, 500)
			blockID(wr, 500)
			st := mat.stackBoc
			if f != nil && f.Kind == "boc-roots" {
				st = wrongRoots
			}
			wr.U32(0).Bytes(bocOf(st))
		case id("liteServer.getMasterchainInfo"):
			if ctx == nil {
				return nil
			}
			wr.U32(id("liteServer.masterchainInfo"))
			blockID(wr, 500)
			wr.I256(nil).U32(0xffffffff).I256(nil).I256(nil)
		case id("liteServer.getTime"):
			if ctx == nil || f == nil {
				return nil
			}
			wr.U32(id("liteServer.currentTime")).U32(12345)
		case id("liteServer.getVersion"):
			if ctx == nil || f == nil {
				return nil
			}
			wr.U32(id("liteServer.version")).Mode(0).U32(0x101).U64(7).U32(12345)
		case id("liteServer.sendMessage"):
			wr.U32(id("liteServer.sendMsgStatus")).U32(1)
		case id("liteServer.listBlockTransactions"):
			wr.U32(id("liteServer.blockTransactions"))
			blockID(wr, 500)
			wr.U32(10).Bool(false).Count(3)
			for i := 0; i < 3; i++ {
				wr.Mode(7).I256([]byte{byte(i)}).U64(uint64(1000 + i)).I256([]byte{9, byte(i)})
			}
			wr.Bytes([]byte{})
		case id("liteServer.getShardInfo"):
			wr.U32(id("liteServer.shardInfo"))
			blockID(wr, 500)
			blockID(wr, 499)
			wr.Bytes([]byte{}).Bytes(bocOf(mat.accountBoc))
		case id("liteServer.getBlockProof"):
			wr.U32(id("liteServer.partialBlockProof")).Bool(true)
			blockID(wr, 400)
			blockID(wr, 500)
			wr.Count(2)
			wr.U32(id("liteServer.blockLinkBack")).Bool(false)
			blockID(wr, 400)
			blockID(wr, 450)
			wr.Bytes([]byte{1}).Bytes([]byte{2}).Bytes([]byte{3})
			wr.U32(id("liteServer.blockLinkForward")).Bool(true)
			blockID(wr, 450)
			blockID(wr, 500)
			wr.Bytes([]byte{1}).Bytes([]byte{2})
			wr.U32(id("liteServer.signatureSet")).U32(77).U32(5).Count(2)
			wr.I256([]byte{1}).Bytes(make([]byte, 64))
			wr.I256([]byte{2}).Bytes(make([]byte, 64))
		default:
			return nil
		}
		out := wr.B
		if f != nil {
			w.Net.Fired["lie-"+f.Kind]++
			switch f.Kind {
			case "tl-truncate":
				out = out[:f.A*len(out)/1000]
			case "tl-mark":
				if len(wr.Marks) > 0 {
					mk := wr.Marks[f.A%len(wr.Marks)]
					switch mk.Kind {
					case "count":
						v := []uint32{0x7fffffff, 0xffffffff, uint32(mk.Len + 1), uint32(mk.Len - 1), 50000000, 1 << 24}[f.B%6]
						binary.LittleEndian.PutUint32(out[mk.Off:], v)
						w.Probe("lie-vector-count")
					case "mode":
						binary.LittleEndian.PutUint32(out[mk.Off:], binary.LittleEndian.Uint32(out[mk.Off:])^(1<<uint(f.B%8))^uint32(f.C&1)<<uint(f.C%32))
						w.Probe("lie-mode-bits")
					case "bytes":
						// inflate or shrink the declared length, keeping the data
						decl := []int{mk.Len + 1, mk.Len + 1000, 1<<24 - 1, mk.Len / 2, 0, 253}[f.B%6]
						if out[mk.Off] == 254 {
							out[mk.Off+1], out[mk.Off+2], out[mk.Off+3] = byte(decl), byte(decl>>8), byte(decl>>16)
						} else if decl < 254 {
							out[mk.Off] = byte(decl)
						} else {
							out[mk.Off] = []byte{254, 255}[f.C%2]
						}
						w.Probe("lie-bytes-length")
					}
				}
			case "tl-set32":
				off := (f.A * len(out) / 1000) &^ 3
				if off+4 <= len(out) {
					binary.LittleEndian.PutUint32(out[off:], c08words[(f.B+f.C)%len(c08words)])
				}
			case "ctor-swap":
				others := []string{"liteServer.blockData", "liteServer.accountState", "liteServer.transactionList", "liteServer.masterchainInfo", "liteServer.runMethodResult", "liteServer.error", "liteServer.configInfo", "liteServer.libraryResult"}
				if len(out) >= 4 {
					binary.LittleEndian.PutUint32(out, id(others[f.B%len(others)]))
				}
			case "adnl-dup":
				s.DupNext = 1 + f.B%3 // surplus copies of a well-formed answer
			case "adnl-len":
				s.LieOuterLen = []int{len(out) + 1, len(out) + 1000, 1<<24 - 1, 254, len(out) + 4}[f.B%5]
			case "err-huge":
				e := &tlref.W{}
				e.U32(id("liteServer.error")).U32(uint32(f.C)).BytesLying(1<<24-1, []byte("short message"), true)
				out = e.B
			}
		}
		if ctx != nil {
			ctx.size = len(out)
		}
		return out
	}

	// ---- the client ----
	var api *liteapi.Client
	var setupErr error
	setupDone := false
	w.At(0, "setup", func() {
		go func() {
			w.Tag("setup")
			c, err := liteapi.NewClient(liteapi.WithLiteServers([]config.LiteServer{{Host: "sim:0", Key: base64.StdEncoding.EncodeToString(srv.Key.Pub)}}), liteapi.WithTimeout(timeout))
			mu.Lock()
			api, setupErr, setupDone = c, err, true
			mu.Unlock()
		}()
	})
	if !w.Run(func() bool { mu.Lock(); defer mu.Unlock(); return setupDone }, 20000, 30*time.Second) || setupErr != nil {
		w.Violate("harness-setup", "harness-setup|client", fmt.Sprintf("client setup failed: %v", setupErr))
		return
	}
	type opres struct {
		kind     string
		fault    *run.Fault
		start    time.Duration
		end      time.Duration
		err      error
		panicked any
		stack    string
		alloc    uint64
		size     int
		served   bool
		probeErr error
		probeP   any
		done     bool
	}
	results := make([]*opres, len(p.Ops))
	allDone := false
	acc := ton.AccountID{Workchain: 0, Address: [32]byte{1, 2, 3}}
	bid := ton.BlockIDExt{BlockID: ton.BlockID{Workchain: -1, Shard: 0x8000000000000000, Seqno: 500}}
	call := func(kind string) (err error) {
		ctx, cancel := context.WithTimeout(context.Background(), timeout)
		defer cancel()
		switch kind {
		case "getblock":
			_, err = api.GetBlock(ctx, bid)
		case "header":
			_, err = api.GetBlockHeader(ctx, bid, 0)
		case "lookup":
			_, _, err = api.LookupBlock(ctx, bid.BlockID, 1, nil, nil)
		case "account":
			_, err = api.GetAccountState(ctx, acc)
		case "txs":
			_, err = api.GetTransactions(ctx, 10, acc, 1000, ton.Bits256{})
		case "onetx":
			_, err = api.GetOneTransactionFromBlock(ctx, acc, bid, 1000)
		case "shards":
			_, err = api.GetAllShardsInfo(ctx, bid)
		case "config":
			_, err = api.GetConfigAll(ctx, 0)
		case "configparams":
			_, err = api.GetConfigParams(ctx, 0, []uint32{1, 2})
		case "libs":
			_, err = api.GetLibraries(ctx, []ton.Bits256{{1}, {2}})
		case "runmethod":
			_, _, err = api.RunSmcMethod(ctx, acc, "seqno", tlb.VmStack{})
		case "seqno":
			_, err = api.GetSeqno(ctx, acc)
		case "mcinfo":
			_, err = api.GetMasterchainInfo(ctx)
		case "time":
			_, err = api.GetTime(ctx)
		case "version":
			_, err = api.GetVersion(ctx)
		case "sendmsg":
			_, err = api.SendMessage(ctx, mat.extMsg)
		case "listtx":
			_, _, err = api.ListBlockTransactions(ctx, bid, 7, 10, nil)
		case "shardinfo":
			_, err = api.GetShardInfo(ctx, bid, 0, 0x8000000000000000, false)
		case "blockproof":
			_, err = api.GetBlockProof(ctx, bid, nil)
		case "state":
			_, _, _, err = api.GetState(ctx, bid)
		}
		return err
	}
	if p.Free {
		// free-running (-race) mode: several callers decode honest answers at the same time; shared decoder
		// state (caches, pooled buffers) shows up as a data race
		var wg sync.WaitGroup
		freeDone := false
		w.At(0, "concurrent workload", func() {
			for g := 0; g < 3; g++ {
				g := g
				wg.Add(1)
				go func() {
					defer wg.Done()
					w.Tag(fmt.Sprintf("caller-%d", g))
					for i := range p.Ops {
						op := p.Ops[i] // same order for everybody: first decodes of a type happen at the same time
						func() {
							defer func() { _ = recover() }()
							_ = call(op.Kind)
						}()
					}
				}()
			}
			go func() {
				wg.Wait()
				mu.Lock()
				freeDone = true
				mu.Unlock()
			}()
		})
		w.Run(func() bool { mu.Lock(); defer mu.Unlock(); return freeDone }, 400000, w.Now()+time.Duration(len(p.Ops)+2)*(2*timeout+5*time.Second))
		r.Nontrivial = true
		return
	}
	w.At(0, "workload", func() {
		go func() {
			w.Tag("caller")
			for i, op := range p.Ops {
				res := &opres{kind: op.Kind}
				for k := range p.Faults {
					if p.Faults[k].Conn == i {
						res.fault = &p.Faults[k]
					}
				}
				if res.fault != nil {
					ff := *res.fault
					ff.B += op.A
					res.fault = &ff
				}
				ctx := &c08answerCtx{kind: op.Kind, fault: res.fault}
				if res.fault == nil {
					ctx.fault = nil
				}
				mu.Lock()
				cur = ctx
				results[i] = res
				mu.Unlock()
				res.start = w.Now()
				meter := startAlloc()
				func() {
					defer func() {
						if x := recover(); x != nil {
							res.panicked = x
							res.stack = repoFrames(string(debug.Stack()))
						}
					}()
					res.err = call(op.Kind)
				}()
				res.alloc = meter.delta()
				res.end = w.Now()
				mu.Lock()
				cur = nil
				res.size = ctx.size
				res.served = ctx.used
				mu.Unlock()
				// the client must have survived: an honest call still works
				func() {
					defer func() {
						if x := recover(); x != nil {
							res.probeP = x
						}
					}()
					res.probeErr = call("time")
				}()
				mu.Lock()
				res.done = true
				mu.Unlock()
			}
			mu.Lock()
			allDone = true
			mu.Unlock()
		}()
	})
	w.Run(func() bool { mu.Lock(); defer mu.Unlock(); return allDone }, 400000, w.Now()+time.Duration(len(p.Ops)+2)*(2*timeout+5*time.Second))
	mu.Lock()
	defer mu.Unlock()
	r.Nontrivial = true
	for i, res := range results {
		if res == nil {
			continue
		}
		mut := "honest"
		if res.fault != nil {
			mut = res.fault.Kind
		}
		name := fmt.Sprintf("call %d %s with %s answer", i, res.kind, mut)
		w.Visit(hash64("srv|" + res.kind + "|" + mut + "|" + fmt.Sprint(res.err == nil)))
		if res.panicked != nil {
			w.Violate("C08.panic", "C08.panic|"+stripNums(fmt.Sprint(res.panicked))+"|"+firstFrame(res.stack), fmt.Sprintf("%s panicked: %v at %s", name, res.panicked, res.stack))
			continue
		}
		if !res.done {
			w.Violate("C08.time", "C08.time|not-returned|"+res.kind, fmt.Sprintf("%s started at %v has not returned (timeout %v, now %v)", name, res.start, timeout, w.Now()))
			break
		}
		if d := res.end - res.start; d > timeout+time.Second {
			w.Violate("C08.time", "C08.time|late|"+res.kind, fmt.Sprintf("%s returned after %v, timeout %v", name, d, timeout))
		}
		if res.alloc > allocBound(res.size) {
			w.Violate("C08.alloc", "C08.alloc|"+res.kind, fmt.Sprintf("%s: the %d-byte answer made the client allocate %d MiB (bound %d MiB)", name, res.size, res.alloc>>20, allocBound(res.size)>>20))
		}
		if res.fault == nil && res.err != nil && res.served {
			// an honest, valid answer must decode (sanity of the harness' material; conformance itself is C10)
			switch res.kind {
			case "account": // the zero shard state holds no accounts: "account not found" is the honest outcome
			default:
				w.Probe("honest-answer-rejected:" + res.kind)
			}
		}
		if res.probeP != nil {
			w.Violate("C08.panic", "C08.panic|after|"+stripNums(fmt.Sprint(res.probeP)), fmt.Sprintf("the honest call after %s panicked: %v", name, res.probeP))
		} else if res.probeErr != nil {
			w.Violate("C08.survive", "C08.survive", fmt.Sprintf("after %s (err=%v) an honest GetTime on the same client failed: %v", name, res.err, res.probeErr))
		}
		if res.err != nil {
			w.Probe("call-error")
		} else {
			w.Probe("call-ok")
		}
	}
}

func execC08(t *testing.T, w *core.World, p *run.Plan, r *run.Result) {
	if p.Get("engine", 0) == 0 {
		execC08rd(w, p, r)
		return
	}
	execC08srv(t, w, p, r)
}

func init() {
	run.Register(&run.Engine{ID: "C08", Gen: genC08, Exec: execC08, Meta: run.Meta{
		Technique:   "deterministic simulation with fault injection, scoped to decoders that sit on peer-delivered or stream-delivered data: (i) whole liteapi stack against a lying simulated lite server (one Byzantine mutation per answer), (ii) every generated TL type decoded through a simulated io.Reader with seeded chunking, short reads, (0,nil) reads, (n,EOF), transient errors and truncation",
		Rule:        "two thirds of the runs: 1-6 (quick) / 1-20 (thorough) liteapi calls (GetBlock, GetBlockHeader, LookupBlock, GetAccountState, GetTransactions, GetOneTransactionFromBlock, GetAllShardsInfo, GetConfigAll/Params, GetLibraries, RunSmcMethod, GetSeqno, GetMasterchainInfo, GetTime, GetVersion, SendMessage, ListBlockTransactions, GetShardInfo, GetBlockProof, GetState) against a server that first builds a valid answer from real blocks / config proofs / library-encoded values and then applies one mutation: truncate, vector count 2^31-1 / 2^32-1 / count+-1 / 5e7, mode bit flips, bytes length inflated / shrunk / 254-255 escapes, arbitrary aligned word, constructor id of another type, liteServer.error with a huge message length, fewer ids than transactions, embedded BOC bit flip / header byte / truncation / wrong number of roots; each call is followed by an honest call on the same client. One third: one of the 73 liteclient TL types (enumerated from the tree at build time), a random valid value, optional mutation, decoded through the simulated reader. Non-trivial = a mutation or reader fault or chunking was applied; distinct = event-log digest.",
		Real:        []string{"liteapi.Client methods listed in the rule incl. decodeAccountDataFromProof, decodeBlockHeader", "liteclient generated LiteServer* wrappers, UnmarshalTL of every generated type, tl.Unmarshal (readByteSlice, decodeVector)", "liteclient.Client.processQueryAnswer / decodeLength", "boc.DeserializeBoc and tlb decoders as reached from those answers", "pool + liteclient transport underneath"},
		Simulated:   []string{"the lying lite server (litesrv + tlref)", "TCP (simnet)", "the io.Reader under tl.Unmarshal (rdsim)", "clock, randomness, lock interleaving"},
		Assumptions: []string{"scoped claim: decoders reached from network answers and stream readers; 'any cell tree into any TL-B type' in general is a pure function of its input and outside this technique (a change that only breaks, say, an ABI message decoder on a hand-made cell is not seen)", "allocation bound: 64 x bytes received + 48 MiB (one maximal 2^24-byte TL bytes field and the 8 MiB frame cap are allowed as constants)", "valid answers are built with the repository's own test data and encoders (oracle is totality, not conformance)"},
	}})
}
