package props

import (
	"bytes"
	"context"
	"crypto/ed25519"
	"errors"
	"fmt"
	"hash/fnv"
	"sync"
	"testing"
	"time"

	"github.com/tonkeeper/tongo/boc"
	"github.com/tonkeeper/tongo/tlb"
	"github.com/tonkeeper/tongo/ton"
	"github.com/tonkeeper/tongo/wallet"

	"verif/sim/core"
	"verif/sim/run"
)

// ---- chainsim: an executable model of the blockchain party of wallet.Wallet ----

type c15poll struct {
	start   time.Duration // instant the wallet asked
	at      time.Duration // instant the answer was given
	err     bool          // injected error
	aborted bool          // the wallet's own context ended the poll before the answer was due
	stale   bool          // answered by a server one transaction behind (value = current - 1)
	value   uint32
}

type chainsim struct {
	w  *core.World
	p  *run.Plan
	mu sync.Mutex

	state     string // none | uninit | active | frozen
	seqno     uint32 // stored seqno when active
	dataCell  *boc.Cell
	codeCell  *boc.Cell
	noData    bool          // active account without a data cell
	includeAt time.Duration // absolute instant at which the stored seqno advances (-1: never)
	advanced  bool

	stateCalls    int
	stateAnswerAt time.Duration
	sends         [][]byte
	sendAt        time.Duration
	polls         []c15poll
	pollErr       map[int]bool
	pollStale     map[int]bool
	pollErrKind   map[int]int // 0 opaque error, 1 wraps context.DeadlineExceeded (backend's own timeout), 2 context.Canceled
	maxLatency    time.Duration
}

func (c *chainsim) lat(key string) time.Duration {
	d := time.Duration(c.p.Get(key, 0)) * time.Millisecond
	if d > c.maxLatency {
		c.maxLatency = d
	}
	return d
}

func (c *chainsim) curSeqno() uint32 {
	s := c.seqno
	if c.state != "active" {
		s = 0
	}
	if c.includeAt >= 0 && c.w.Now() >= c.includeAt {
		c.advanced = true
		return s + 1
	}
	return s
}

func (c *chainsim) GetSeqno(ctx context.Context, account ton.AccountID) (uint32, error) {
	started := c.w.Now()
	if d := c.lat("poll_lat_ms"); d > 0 {
		// like a real lite client, the chain party honours the context it is given
		t := time.NewTimer(d)
		select {
		case <-t.C:
		case <-ctx.Done():
			t.Stop()
			c.mu.Lock()
			c.polls = append(c.polls, c15poll{start: started, at: c.w.Now(), aborted: true})
			c.mu.Unlock()
			c.w.Probe("poll-aborted-by-caller-context")
			return 0, ctx.Err()
		}
	}
	c.mu.Lock()
	defer c.mu.Unlock()
	i := len(c.polls)
	if c.pollErr[i] {
		c.polls = append(c.polls, c15poll{start: started, at: c.w.Now(), err: true})
		c.w.Probe("poll-error-injected")
		switch c.pollErrKind[i] {
		case 1:
			// the backend's own per-request timeout; the caller's context is alive
			return 0, fmt.Errorf("chainsim: lite server request: %w", context.DeadlineExceeded)
		case 2:
			return 0, context.Canceled
		}
		return 0, errors.New("chainsim: injected GetSeqno error")
	}
	v := c.curSeqno()
	if c.pollStale[i] && v > 0 {
		// a lite server that has not applied the account's latest transaction yet
		c.w.Probe("poll-answered-by-lagging-server")
		c.polls = append(c.polls, c15poll{start: started, at: c.w.Now(), value: v - 1, stale: true})
		return v - 1, nil
	}
	c.polls = append(c.polls, c15poll{start: started, at: c.w.Now(), value: v})
	return v, nil
}

func (c *chainsim) SendMessage(ctx context.Context, payload []byte) (uint32, error) {
	if d := c.lat("send_lat_ms"); d > 0 {
		time.Sleep(d)
	}
	c.mu.Lock()
	defer c.mu.Unlock()
	c.sends = append(c.sends, append([]byte{}, payload...))
	c.sendAt = c.w.Now()
	if c.p.Get("send_err", 0) == 1 {
		c.w.Probe("send-error-injected")
		if inc := c.p.Get("include_ms", -1); inc >= 0 && c.p.Get("foreign_adv", 0) == 1 {
			// the message was refused, but another message of the same wallet (sent elsewhere) is included: the stored
			// seqno advances all the same
			c.includeAt = c.w.Now() + time.Duration(inc)*time.Millisecond
			c.w.Probe("seqno-advances-although-the-send-failed")
		}
		return 0, errors.New("chainsim: injected SendMessage error")
	}
	if inc := c.p.Get("include_ms", -1); inc >= 0 {
		c.includeAt = c.w.Now() + time.Duration(inc)*time.Millisecond
	}
	return 1, nil
}

func (c *chainsim) GetAccountState(ctx context.Context, accountID ton.AccountID) (tlb.ShardAccount, error) {
	if d := c.lat("state_lat_ms"); d > 0 {
		time.Sleep(d)
	}
	c.mu.Lock()
	defer c.mu.Unlock()
	c.stateCalls++
	c.stateAnswerAt = c.w.Now()
	if c.p.Get("state_err", 0) == 1 {
		c.w.Probe("state-error-injected")
		return tlb.ShardAccount{}, errors.New("chainsim: injected GetAccountState error")
	}
	var sa tlb.ShardAccount
	switch c.state {
	case "none":
		sa.Account.SumType = "AccountNone"
	case "uninit":
		sa.Account.SumType = "Account"
		sa.Account.Account.Storage.State.SumType = "AccountUninit"
	case "frozen":
		sa.Account.SumType = "Account"
		sa.Account.Account.Storage.State.SumType = "AccountFrozen"
	case "active":
		sa.Account.SumType = "Account"
		st := &sa.Account.Account.Storage.State
		st.SumType = "AccountActive"
		st.AccountActive.StateInit.Code = tlb.Maybe[tlb.Ref[boc.Cell]]{Exists: true, Value: tlb.Ref[boc.Cell]{Value: *c.codeCell}}
		st.AccountActive.StateInit.Data = tlb.Maybe[tlb.Ref[boc.Cell]]{Exists: true, Value: tlb.Ref[boc.Cell]{Value: *c.dataCell}}
		if c.noData {
			st.AccountActive.StateInit.Data = tlb.Maybe[tlb.Ref[boc.Cell]]{}
		}
	}
	return sa, nil
}

// ---- wallet data layouts, written from the contracts' storage definitions ----

var c15versions = []wallet.Version{wallet.V1R1, wallet.V1R2, wallet.V1R3, wallet.V2R1, wallet.V2R2, wallet.V3R1, wallet.V3R2, wallet.V4R1, wallet.V4R2, wallet.V5Beta, wallet.V5R1, wallet.HighLoadV2R2}

const (
	c15DefaultSubWallet = 698983191
	c15Mainnet          = -239
)

type c15id struct {
	ver    wallet.Version
	pub    ed25519.PublicKey
	wc     int
	sub    int64 // -1 = default
	netid  int64 // 0 = default (mainnet)
	hasSub bool
	hasNet bool
}

func c15family(v wallet.Version) string {
	switch v {
	case wallet.V1R1, wallet.V1R2, wallet.V1R3, wallet.V2R1, wallet.V2R2:
		return "v1v2"
	case wallet.V3R1, wallet.V3R2:
		return "v3"
	case wallet.V4R1, wallet.V4R2:
		return "v4"
	case wallet.V5Beta:
		return "v5beta"
	case wallet.V5R1:
		return "v5r1"
	}
	return "hl2"
}

// dataCell lays out the persistent data of a wallet with the given stored seqno.
func (id c15id) dataCell(seqno uint32) *hcell {
	c := &hcell{}
	sub := uint64(uint32(c15DefaultSubWallet + id.wc))
	if id.sub >= 0 {
		sub = uint64(uint32(id.sub))
	}
	net := int32(c15Mainnet)
	if id.netid != 0 {
		net = int32(id.netid)
	}
	switch c15family(id.ver) {
	case "v1v2":
		c.u(uint64(seqno), 32).bytes(id.pub)
	case "v3":
		c.u(uint64(seqno), 32).u(sub, 32).bytes(id.pub)
	case "v4":
		c.u(uint64(seqno), 32).u(sub, 32).bytes(id.pub).u(0, 1)
	case "v5beta":
		s5 := uint64(0)
		if id.sub >= 0 {
			s5 = uint64(uint32(id.sub))
		}
		c.u(uint64(seqno), 33).u(uint64(uint32(net)), 32).u(uint64(uint8(id.wc)), 8).u(0, 8).u(s5, 32).bytes(id.pub).u(0, 1)
	case "v5r1":
		// wallet_id = context_id XOR network_global_id; client context: 1 | wc:8 | version:8 (0) | subwallet:15 (0)
		ctx := uint32(1)<<31 | uint32(uint8(id.wc))<<23
		wid := ctx ^ uint32(net)
		c.u(1, 1).u(uint64(seqno), 32).u(uint64(wid), 32).bytes(id.pub).u(0, 1)
	case "hl2":
		c.u(sub, 32).u(0, 64).bytes(id.pub).u(0, 1)
	}
	return c
}

func (id c15id) stateInit() *hcell {
	code := fromLib(wallet.GetCodeByVer(id.ver))
	si := &hcell{}
	si.u(0b00110, 5).ref(code).ref(id.dataCell(0))
	return si
}

func (id c15id) address() ton.AccountID {
	si := id.stateInit()
	si.compute()
	return ton.AccountID{Workchain: int32(id.wc), Address: si.hash}
}

func (id c15id) opts() []wallet.Option {
	o := []wallet.Option{wallet.WithWorkchain(id.wc)}
	if id.sub >= 0 {
		o = append(o, wallet.WithSubWalletID(uint32(id.sub)))
	}
	if id.netid != 0 {
		o = append(o, wallet.WithNetworkGlobalID(int32(id.netid)))
	}
	return o
}

func (id c15id) subPtr() *uint32 {
	if id.sub < 0 {
		return nil
	}
	v := uint32(id.sub)
	return &v
}
func (id c15id) netPtr() *int32 {
	if id.netid == 0 {
		return nil
	}
	v := int32(id.netid)
	return &v
}

func (id c15id) String() string {
	return fmt.Sprintf("ver=%s wc=%d sub=%d net=%d key=%x..", id.ver.ToString(), id.wc, id.sub, id.netid, []byte(id.pub[:4]))
}

// toLibCell converts a harness cell into a library cell (needed to hand account data to the wallet).
func toLibCell(h *hcell) *boc.Cell {
	c := boc.NewCell()
	for _, b := range h.bits {
		_ = c.WriteBit(b)
	}
	for _, r := range h.refs {
		_ = c.AddRef(toLibCell(r))
	}
	return c
}

func genC15(seed uint64, index int, tier string) *run.Plan {
	g := core.NewRng(core.Mix(seed, 15))
	p := &run.Plan{Property: "C15", Tier: tier, Seed: seed, Index: index, P: map[string]int{}}
	p.P["ver"] = g.Intn(len(c15versions))
	if p.P["ver"] < 5 && g.Intn(3) != 0 {
		p.P["ver"] = 5 + g.Intn(len(c15versions)-5) // the v1/v2 family takes part on the address side only
	}
	p.P["wc"] = []int{0, 0, 0, -1, -1, 1, 5, 127, -128, -7}[g.Intn(10)]
	p.P["sub"] = -1
	if g.Intn(3) == 0 {
		p.P["sub"] = []int{0, 1, c15DefaultSubWallet, c15DefaultSubWallet + 1, 0x7fffffff, int(g.Next() % (1 << 32))}[g.Intn(6)]
	}
	p.P["net"] = 0
	if g.Intn(3) == 0 {
		p.P["net"] = []int{-3, -239, 1, -1, int(int32(g.Next()))}[g.Intn(5)]
		if p.P["net"] == 0 {
			p.P["net"] = -3
		}
	}
	p.P["state"] = g.Intn(4) // none uninit active frozen
	if g.Intn(3) == 0 {
		p.P["state"] = 2
	}
	p.P["seqno"] = []int{0, 1, 2, 7, 255, 256, 65535, 1 << 31, (1 << 32) - 2, int(g.Next() % (1 << 32))}[g.Intn(10)]
	p.P["nmsg"] = []int{0, 1, 1, 2, 4, 5}[g.Intn(6)]
	p.P["lifetime_s"] = []int{0, 1, 60, 180, 3600}[g.Intn(5)]
	// confirmation window
	switch g.Intn(4) {
	case 0:
		p.P["wait_ms"] = 0
	default:
		p.P["wait_ms"] = []int{1000, 3000, 10000, 60000, 300000, 1000 + g.Intn(100000)}[g.Intn(6)]
	}
	w := p.P["wait_ms"]
	// inclusion: never, or somewhere in / after the window
	switch g.Intn(5) {
	case 0:
		p.P["include_ms"] = -1
	case 1:
		p.P["include_ms"] = 0
	case 2:
		p.P["include_ms"] = g.Intn(w/2 + 1)
	case 3:
		p.P["include_ms"] = g.Intn(w + 1)
	default:
		p.P["include_ms"] = w + 1 + g.Intn(w+1000)
	}
	if g.Intn(8) == 0 {
		p.P["state_err"] = 1
	}
	if g.Intn(8) == 0 {
		p.P["send_err"] = 1
		p.P["foreign_adv"] = g.Intn(2)
	}
	if g.Intn(3) == 0 {
		p.P["state_lat_ms"] = []int{1, 50, 2000}[g.Intn(3)]
	}
	if g.Intn(3) == 0 {
		p.P["send_lat_ms"] = []int{1, 50, 2000}[g.Intn(3)]
	}
	if g.Intn(3) == 0 {
		p.P["poll_lat_ms"] = []int{1, 20, 500, 2000, 7000}[g.Intn(5)]
	}
	if g.Intn(3) == 0 {
		n := 1 + g.Intn(4)
		for i := 0; i < n; i++ {
			p.Faults = append(p.Faults, run.Fault{Kind: "poll-err", A: g.Intn(12), B: g.Intn(3)})
		}
	}
	if g.Intn(10) == 0 {
		p.Faults = append(p.Faults, run.Fault{Kind: "poll-err-all"})
	}
	if g.Intn(4) == 0 {
		// some polls are answered by a server that is one transaction behind: no news, not an advance
		n := 1 + g.Intn(3)
		for i := 0; i < n; i++ {
			p.Faults = append(p.Faults, run.Fault{Kind: "poll-stale", A: g.Intn(6)})
		}
	}
	if p.P["state"] == 2 && g.Intn(6) == 0 {
		// the chain party answers with an active account whose data cell is not a wallet's data (cut short, empty,
		// or absent): there is no stored seqno to take
		p.P["bad_data"] = 1 + g.Intn(3)
		p.P["bad_bits"] = []int{1, 20, 31, 48, 63}[g.Intn(5)]
	}
	if g.Intn(4) == 0 {
		// the same Wallet object sends again after the account changed underneath it (destroyed, re-deployed,
		// or simply further along): nothing remembered from the first send may leak into the second message
		p.P["second"] = 1
		p.P["state2"] = g.Intn(3) // none uninit active
		p.P["seqno2"] = []int{0, 1, 2, 5, 300, int(g.Next() % (1 << 32))}[g.Intn(6)]
	}
	return p
}

func c15key(seed uint64, k int) ed25519.PrivateKey {
	return ed25519.NewKeyFromSeed(core.NewRng(core.Mix(seed, uint64(1500+k))).Bytes(32))
}

func execC15(t *testing.T, w *core.World, p *run.Plan, r *run.Result) {
	priv := c15key(p.Seed, 0)
	pub := priv.Public().(ed25519.PublicKey)
	id := c15id{ver: c15versions[p.Get("ver", 0)%len(c15versions)], pub: pub, wc: p.Get("wc", 0), sub: int64(p.Get("sub", -1)), netid: int64(p.Get("net", 0))}
	fam := c15family(id.ver)
	tag := id.ver.ToString()

	// ---------- address half (A1-A3): input sampling that every simulated send needs anyway ----------
	want := id.address()
	chain := &chainsim{w: w, p: p, pollErr: map[int]bool{}, pollStale: map[int]bool{}, pollErrKind: map[int]int{}, includeAt: -1}
	var wl wallet.Wallet
	var newErr error
	func() {
		defer func() {
			if x := recover(); x != nil {
				newErr = fmt.Errorf("panic: %v", x)
				w.Violate("C15.A-new", "C15.A|new-panic|"+fam, fmt.Sprintf("wallet.New(%s) panicked: %v", id, x))
			}
		}()
		wl, newErr = wallet.New(priv, id.ver, chain, append(id.opts(), wallet.WithMessageLifetime(time.Duration(p.Get("lifetime_s", 180))*time.Second))...)
	}()
	if newErr != nil {
		if len(w.Violations) == 0 {
			w.Violate("C15.A-new", "C15.A|new-error|"+fam, fmt.Sprintf("wallet.New(%s) failed: %v", id, newErr))
		}
		return
	}
	if got := wl.GetAddress(); got != want {
		w.Violate("C15.A1", "C15.A1|address|"+fam, fmt.Sprintf("%s: Wallet.GetAddress=%s, hash of hand-built state-init=%s", id, got.ToRaw(), want.ToRaw()))
	}
	if a2, err := wallet.GenerateWalletAddress(pub, id.ver, id.netPtr(), id.wc, id.subPtr()); err != nil || a2 != want {
		w.Violate("C15.A2", "C15.A2|GenerateWalletAddress|"+fam, fmt.Sprintf("%s: GenerateWalletAddress=%s err=%v, want %s", id, a2.ToRaw(), err, want.ToRaw()))
	}
	si, err := wallet.GenerateStateInit(pub, id.ver, id.netPtr(), id.wc, id.subPtr())
	handedOut := si
	// ... and the one the Wallet object hands out (a pointer)
	walletInit, wiErr := wl.StateInit()
	if wiErr != nil || walletInit == nil {
		w.Violate("C15.A2", "C15.A2|Wallet.StateInit|"+fam, fmt.Sprintf("%s: Wallet.StateInit err=%v", id, wiErr))
	} else {
		cell := boc.NewCell()
		if e := tlb.Marshal(cell, *walletInit); e != nil {
			w.Violate("C15.A2", "C15.A2|Wallet.StateInit|"+fam, fmt.Sprintf("%s: marshal err=%v", id, e))
		} else if h := fromLib(cell); true {
			h.compute()
			if h.hash != [32]byte(want.Address) {
				w.Violate("C15.A2", "C15.A2|Wallet.StateInit|"+fam, fmt.Sprintf("%s: hash(Wallet.StateInit)=%x, want %x", id, h.hash, want.Address))
			}
		}
	}
	if err != nil {
		w.Violate("C15.A2", "C15.A2|GenerateStateInit|"+fam, fmt.Sprintf("%s: GenerateStateInit err=%v", id, err))
	} else {
		cell := boc.NewCell()
		if err := tlb.Marshal(cell, si); err != nil {
			w.Violate("C15.A2", "C15.A2|GenerateStateInit|"+fam, fmt.Sprintf("%s: marshal err=%v", id, err))
		} else {
			h := fromLib(cell)
			h.compute()
			if h.hash != [32]byte(want.Address) {
				w.Violate("C15.A2", "C15.A2|GenerateStateInit|"+fam, fmt.Sprintf("%s: hash(GenerateStateInit)=%x, want %x", id, h.hash, want.Address))
			}
		}
	}
	// the same two wallets are asked for in every run of a worker process, thousands of other wallets apart: whatever
	// the library remembers between calls must not change their addresses
	for k, av := range []wallet.Version{wallet.V4R2, wallet.V5R1} {
		anchor := c15id{ver: av, pub: c15key(0xA11CE, k).Public().(ed25519.PublicKey), wc: 0, sub: -1}
		if a, err := wallet.GenerateWalletAddress(anchor.pub, anchor.ver, nil, 0, nil); err != nil || a != anchor.address() {
			w.Violate("C15.A1", "C15.A1|address-of-a-wallet-seen-before|"+c15family(av), fmt.Sprintf("%s: GenerateWalletAddress=%s err=%v, hash of hand-built state-init=%s (the same call is made in every run of this process)", anchor, a.ToRaw(), err, anchor.address().ToRaw()))
		}
	}
	// A3: one-component variants must give different addresses
	variants := []c15id{}
	v := id
	v.pub = c15key(p.Seed, 1).Public().(ed25519.PublicKey)
	variants = append(variants, v)
	v = id
	v.ver = c15versions[(p.Get("ver", 0)+1+int(p.Seed%uint64(len(c15versions)-1)))%len(c15versions)]
	variants = append(variants, v)
	v = id
	if v.wc == 0 {
		v.wc = -1
	} else {
		v.wc = 0
	}
	variants = append(variants, v)
	if fam == "v3" || fam == "v4" || fam == "v5beta" || fam == "hl2" {
		v = id
		v.sub = (id.sub+1)%0x7fffffff + 1
		if id.sub < 0 {
			v.sub = 12345
		}
		variants = append(variants, v)
	}
	if fam == "v5beta" || fam == "v5r1" {
		v = id
		if id.netid == -3 {
			v.netid = -239
		} else if id.netid == 0 || id.netid == -239 {
			v.netid = -3
		} else {
			v.netid = id.netid ^ 0x10
			if v.netid == 0 {
				v.netid = 7
			}
		}
		variants = append(variants, v)
	}
	for _, vv := range variants {
		a, err := wallet.GenerateWalletAddress(vv.pub, vv.ver, vv.netPtr(), vv.wc, vv.subPtr())
		if err != nil {
			continue
		}
		if a == want {
			w.Violate("C15.A3", "C15.A3|collision|"+fam, fmt.Sprintf("%s and %s have the same address %s", id, vv, a.ToRaw()))
		}
		if exp := vv.address(); a != exp {
			w.Violate("C15.A1", "C15.A1|address|"+c15family(vv.ver), fmt.Sprintf("%s: GenerateWalletAddress=%s, hand-built=%s", vv, a.ToRaw(), exp.ToRaw()))
		}
	}
	// a state-init that was handed out still is this wallet's initial state after other wallets were derived
	if wiErr == nil && walletInit != nil {
		cell := boc.NewCell()
		if e := tlb.Marshal(cell, *walletInit); e == nil {
			h := fromLib(cell)
			h.compute()
			if h.hash != [32]byte(want.Address) {
				w.Violate("C15.A2", "C15.A2|state-init-changed-after-return|"+fam, fmt.Sprintf("%s: the state-init returned by Wallet.StateInit hashed to the wallet's address when it was returned and hashes to %x after addresses of other wallets were generated", id, h.hash))
			}
		}
	}
	if err == nil {
		cell := boc.NewCell()
		if e := tlb.Marshal(cell, handedOut); e == nil {
			h := fromLib(cell)
			h.compute()
			if h.hash != [32]byte(want.Address) {
				w.Violate("C15.A2", "C15.A2|state-init-changed-after-return|"+fam, fmt.Sprintf("%s: the state-init returned by GenerateStateInit hashed to the wallet's address when it was returned and hashes to %x after addresses of other wallets were generated", id, h.hash))
			}
		}
	}
	if fam == "v1v2" {
		// message building is declared unimplemented for this family: address side only
		w.Probe("v1v2-address-only")
		r.Nontrivial = true
		w.Visit(hash64(fmt.Sprintf("addr|%s|%d", tag, id.wc)))
		return
	}

	// ---------- send half ----------
	chain.state = []string{"none", "uninit", "active", "frozen"}[p.Get("state", 0)%4]
	chain.seqno = uint32(p.Get("seqno", 0))
	chain.codeCell = wallet.GetCodeByVer(id.ver)
	chain.dataCell = toLibCell(id.dataCell(chain.seqno))
	badData := 0
	if chain.state == "active" {
		badData = p.Get("bad_data", 0)
	}
	switch badData {
	case 1:
		h := id.dataCell(chain.seqno)
		if n := p.Get("bad_bits", 20); n < len(h.bits) {
			h.bits = h.bits[:n]
		}
		chain.dataCell = toLibCell(h)
	case 2:
		chain.dataCell = boc.NewCell()
	case 3:
		chain.noData = true
	}
	for _, f := range p.Faults {
		switch f.Kind {
		case "poll-err":
			chain.pollErr[f.A] = true
			chain.pollErrKind[f.A] = f.B
		case "poll-stale":
			chain.pollStale[f.A] = true
		case "poll-err-all":
			for i := 0; i < 64; i++ {
				chain.pollErr[i] = true
			}
		}
	}
	W := time.Duration(p.Get("wait_ms", 0)) * time.Millisecond
	lifetime := time.Duration(p.Get("lifetime_s", 180)) * time.Second
	var msgs []wallet.Sendable
	for i := 0; i < p.Get("nmsg", 1); i++ {
		dst := ton.AccountID{Workchain: 0}
		copy(dst.Address[:], core.NewRng(core.Mix(p.Seed, uint64(900+i))).Bytes(32))
		msgs = append(msgs, wallet.SimpleTransfer{Amount: tlb.Grams(1000 + i), Address: dst, Comment: fmt.Sprintf("m%d", i)})
	}
	type outcome struct {
		hash     ton.Bits256
		err      error
		at       time.Duration
		panicked any
		done     bool
	}
	var out outcome
	w.At(0, "SendV2", func() {

		go func() {
			w.Tag("sender")
			defer func() {
				if x := recover(); x != nil {
					out.panicked = x
					out.at = w.Now()
					out.done = true
				}
			}()
			h, err := wl.SendV2(context.Background(), W, msgs...)
			out = outcome{hash: h, err: err, at: w.Now(), done: true}
		}()
	})
	horizon := 2*W + 30*time.Second
	w.Run(func() bool { return out.done }, 100000, horizon)
	if p.Get("second", 0) == 1 && out.done && out.panicked == nil && chain.state != "frozen" && fam != "hl2" {
		defer c15second(w, p, &wl, chain, id, fam, want)
	}
	r.Nontrivial = chain.stateCalls > 0
	sentSeqno := uint32(0)
	if chain.state == "active" {
		sentSeqno = chain.seqno
	}
	cls := func(o string) string { return "C15." + o + "|" + fam }
	if out.panicked != nil {
		w.Violate("C15.panic", cls("panic"), fmt.Sprintf("SendV2 panicked (%s, state=%s): %v", id, chain.state, out.panicked))
		return
	}
	if !out.done {
		w.Violate("C15.O4", cls("O4-no-return"), fmt.Sprintf("SendV2 (W=%v) has not returned after %v of simulated time (%d polls)", W, horizon, len(chain.polls)))
		return
	}
	// O1: errors of the chain party surface, and nothing is sent after a failed state query
	if p.Get("state_err", 0) == 1 {
		if out.err == nil || len(chain.sends) > 0 {
			w.Violate("C15.O1", cls("O1-state-err"), fmt.Sprintf("GetAccountState failed but SendV2 err=%v, messages sent=%d", out.err, len(chain.sends)))
		}
		w.Visit(hash64("state-err|" + tag))
		return
	}
	if chain.state == "frozen" {
		// not judged (DESIGN 5.5); only "returns, no panic"
		w.Visit(hash64("frozen|" + tag))
		return
	}
	if len(msgs) > wl_max(id.ver) {
		if out.err == nil {
			w.Violate("C15.O1", cls("O1-limit"), "more messages than the version supports were accepted")
		}
		return
	}
	if badData != 0 {
		// an active account that shows no usable seqno: an error with nothing sent is the clean outcome; whatever
		// is sent instead must still follow the rules for an active account (no initial state) - seqno not judged
		w.Probe("active-account-with-unusable-data")
		w.Visit(hash64(fmt.Sprintf("bad-data|%s|%d|%v", tag, badData, out.err == nil)))
		if len(chain.sends) == 0 {
			if out.err == nil {
				w.Violate("C15.P", cls("P-sends"), "active account with undecodable data: SendV2 returned nil but sent nothing")
			}
			return
		}
		if hasInit, err := c15hasInit(chain.sends[0]); err == nil && hasInit {
			w.Violate("C15.P2", cls("P2-init-active-bad-data"), fmt.Sprintf("the account is active (its data cell does not decode as wallet data, kind %d): the message carries an initial state (err=%v)", badData, out.err))
		}
		return
	}
	if len(chain.sends) != 1 {
		w.Violate("C15.P", cls("P-sends"), fmt.Sprintf("expected exactly one SendMessage, saw %d (err=%v)", len(chain.sends), out.err))
		return
	}
	// ---- P1..P5 on the captured external message ----
	cells, err := boc.DeserializeBoc(chain.sends[0])
	if err != nil || len(cells) != 1 {
		w.Violate("C15.P", cls("P-boc"), fmt.Sprintf("captured payload is not a single-root BOC: %v", err))
		return
	}
	m := fromLib(cells[0])
	rd := &bitReader{c: m}
	if rd.u(2) != 0b10 || rd.u(2) != 0b00 {
		w.Violate("C15.P1", cls("P1-header"), "message is not ext_in_msg_info with src addr_none")
	}
	if rd.u(2) != 0b10 || rd.u(1) != 0 {
		w.Violate("C15.P1", cls("P1-header"), "destination is not addr_std without anycast")
	}
	dwc := int8(rd.u(8))
	daddr := rd.bytes(32)
	if int32(dwc) != want.Workchain || !bytes.Equal(daddr, want.Address[:]) {
		w.Violate("C15.P1", cls("P1-dest"), fmt.Sprintf("external message addressed to %d:%x, wallet is %s", dwc, daddr, want.ToRaw()))
	}
	if fee := rd.u(4); fee != 0 {
		rd.u(int(fee) * 8)
	}
	hasInit := rd.u(1) == 1
	var initCell *hcell
	if hasInit {
		if rd.u(1) == 1 {
			initCell = rd.nextRef()
		} else {
			w.Violate("C15.P2", cls("P2-inline-init"), "state-init stored inline; cannot be judged by this harness")
			return
		}
	}
	var body *hcell
	if rd.u(1) == 1 {
		body = rd.nextRef()
	} else {
		body = &hcell{bits: m.bits[rd.pos:], refs: m.refs[rd.ref:]}
	}
	if rd.bad {
		w.Violate("C15.P1", cls("P1-header"), "external message cell is too short")
		return
	}
	needInit := chain.state == "none" || chain.state == "uninit"
	if needInit != hasInit {
		w.Violate("C15.P2", cls("P2-init"), fmt.Sprintf("account %s: state-init attached=%v", chain.state, hasInit))
	}
	if hasInit {
		initCell.compute()
		if initCell.hash != [32]byte(want.Address) {
			w.Violate("C15.P2", cls("P2-init-hash"), fmt.Sprintf("attached state-init hashes to %x, address is %x", initCell.hash, want.Address))
		}
	}
	// body
	br := &bitReader{c: body}
	var sig []byte
	var signed *hcell
	var gotSeqno, gotValid uint64
	hasSeqno := true
	switch fam {
	case "v3", "v4":
		sig = br.bytes(64)
		signed = &hcell{bits: body.bits[min(512, len(body.bits)):], refs: body.refs}
		br.u(32) // subwallet
		gotValid = br.u(32)
		gotSeqno = br.u(32)
	case "hl2":
		sig = br.bytes(64)
		signed = &hcell{bits: body.bits[min(512, len(body.bits)):], refs: body.refs}
		br.u(32)
		q := br.u(64)
		gotValid = q >> 32
		hasSeqno = false
	case "v5beta":
		br.u(32)
		br.u(80)
		gotValid = br.u(32)
		gotSeqno = br.u(32)
	case "v5r1":
		br.u(32)
		br.u(32)
		gotValid = br.u(32)
		gotSeqno = br.u(32)
	}
	if fam == "v5beta" || fam == "v5r1" {
		n := len(body.bits)
		if n < 512 {
			br.bad = true
		} else {
			sr := &bitReader{c: &hcell{bits: body.bits[n-512:]}}
			sig = sr.bytes(64)
			signed = &hcell{bits: body.bits[:n-512], refs: body.refs}
		}
	}
	if br.bad {
		w.Violate("C15.P3", cls("P-body"), "signed body is too short for the version's layout")
		return
	}
	if hasSeqno && uint32(gotSeqno) != sentSeqno {
		w.Violate("C15.P3", cls("P3-seqno"), fmt.Sprintf("account %s with stored seqno %d: message carries seqno %d", chain.state, chain.seqno, gotSeqno))
	}
	signed.compute()
	if !ed25519.Verify(pub, signed.hash[:], sig) {
		w.Violate("C15.P4", cls("P4-signature"), "body signature does not verify under the wallet's key over the unsigned part of the body")
	}
	expValid := w.StartTime().Add(chain.stateAnswerAt).Add(lifetime).Unix()
	if int64(gotValid) != int64(uint32(expValid)) {
		w.Violate("C15.P5", cls("P5-valid-until"), fmt.Sprintf("valid-until=%d, state was read at unix %d with lifetime %v => %d", gotValid, w.StartTime().Add(chain.stateAnswerAt).Unix(), lifetime, expValid))
	}

	// ---- outcome ----
	if p.Get("send_err", 0) == 1 {
		if out.err == nil {
			w.Violate("C15.O1", cls("O1-send-err"), "SendMessage failed but SendV2 returned nil")
		}
		w.Visit(hash64("send-err|" + tag))
		return
	}
	if W == 0 {
		if out.err != nil {
			w.Violate("C15.O5", cls("O5"), fmt.Sprintf("no confirmation requested, message accepted, but SendV2 returned %v", out.err))
		}
		if out.at != chain.sendAt {
			w.Violate("C15.O5", cls("O5-late"), fmt.Sprintf("no confirmation requested but SendV2 returned %v after SendMessage", out.at-chain.sendAt))
		}
		if len(chain.polls) != 0 {
			w.Violate("C15.O5", cls("O5-polls"), "no confirmation requested but GetSeqno was polled")
		}
		w.Visit(hash64("w0|" + tag + chain.state))
		return
	}
	if fam == "hl2" {
		// refuses confirmation by design
		w.Visit(hash64("hl2-wait|" + chain.state))
		return
	}
	sawAdvance := false
	errAfterAdvance := false
	for _, pl := range chain.polls {
		if !pl.err && !pl.aborted && pl.value > sentSeqno {
			sawAdvance = true
		}
	}
	advancedAt := chain.includeAt
	if advancedAt >= 0 {
		for _, pl := range chain.polls {
			if (pl.err || pl.stale) && pl.at >= advancedAt {
				errAfterAdvance = true
			}
		}
	}
	if (out.err == nil) != sawAdvance {
		w.Violate("C15.O2", cls("O2-confirmation"), fmt.Sprintf("W=%v, %d polls, a poll saw seqno > %d: %v, but SendV2 returned err=%v", W, len(chain.polls), sentSeqno, sawAdvance, out.err))
	}
	// O3 (completeness, without mirroring the poll period): the window is taken to start no earlier than the
	// instant the account state was read (the wallet may start its clock anywhere between that and the
	// return of SendMessage); an advance within the first half of the window so measured must be seen.
	if advancedAt >= 0 && advancedAt-chain.stateAnswerAt <= W/2 && !errAfterAdvance && out.err != nil {
		w.Violate("C15.O3", cls("O3-missed"), fmt.Sprintf("seqno advanced %v after the state was read (window %v), no poll error afterwards, yet SendV2 returned %v (%d polls)", advancedAt-chain.stateAnswerAt, W, out.err, len(chain.polls)))
	}
	// O6: an error about the confirmation is only due once the window has elapsed (the window cannot start
	// before the account state was read)
	if out.err != nil && out.at < chain.stateAnswerAt+W {
		w.Violate("C15.O6", cls("O6-early-error"), fmt.Sprintf("the message was accepted and the window is %v, but SendV2 gave up %v after the state was read: %v (%d polls)", W, out.at-chain.stateAnswerAt, out.err, len(chain.polls)))
	}
	// O4: the window starts no later than the instant SendMessage returned; a poll that is in flight at the deadline may
	// finish, and half a window is allowed for the polling period (not mirrored): later than that is not "by the deadline"
	if limit := chain.sendAt + W + W/2 + 2*chain.maxLatency; out.at > limit {
		w.Violate("C15.O4", cls("O4-late"), fmt.Sprintf("SendV2 returned at %v, later than %v (message accepted at %v, window %v, slowest answer %v, %d polls)", out.at, limit, chain.sendAt, W, chain.maxLatency, len(chain.polls)))
	}
	// O7: success rests on a poll that was issued within the window
	if n := len(chain.polls); out.err == nil && n > 0 && chain.polls[n-1].start > chain.sendAt+W {
		w.Violate("C15.O7", cls("O7-late-success"), fmt.Sprintf("SendV2 reported success from a poll issued %v after the message was accepted; the window is %v", chain.polls[n-1].start-chain.sendAt, W))
	}
	if sawAdvance {
		w.Probe("confirmed")
	} else {
		w.Probe("not-confirmed")
	}
	adv := "never"
	if advancedAt >= 0 {
		switch {
		case advancedAt-chain.sendAt <= W/2:
			adv = "early"
		case advancedAt-chain.sendAt <= W:
			adv = "late"
		default:
			adv = "after"
		}
	}
	w.Visit(hash64(fmt.Sprintf("wait|%s|%s|%s|%v|%d", tag, chain.state, adv, errAfterAdvance, min(len(chain.polls), 12))))
}

// c15second sends once more through the same wallet after the model's account changed, and checks destination,
// state-init and seqno of the second message.
func c15second(w *core.World, p *run.Plan, wl *wallet.Wallet, chain *chainsim, id c15id, fam string, want ton.AccountID) {
	chain.mu.Lock()
	chain.state = []string{"none", "uninit", "active"}[p.Get("state2", 0)%3]
	chain.seqno = uint32(p.Get("seqno2", 0))
	chain.dataCell = toLibCell(id.dataCell(chain.seqno))
	chain.noData = false
	chain.includeAt = -1
	before := len(chain.sends)
	chain.mu.Unlock()
	done := false
	var err error
	var pn any
	w.At(0, "second SendV2", func() {
		go func() {
			w.Tag("sender-2")
			defer func() {
				if x := recover(); x != nil {
					pn = x
				}
				done = true
			}()
			dst := ton.AccountID{Workchain: 0}
			_, err = wl.SendV2(context.Background(), 0, wallet.SimpleTransfer{Amount: 1, Address: dst})
		}()
	})
	w.Run(func() bool { return done }, w.Steps+10000, w.Now()+60*time.Second)
	cls := func(o string) string { return "C15." + o + "|" + fam }
	if pn != nil {
		w.Violate("C15.panic", cls("panic"), fmt.Sprintf("second SendV2 panicked: %v", pn))
		return
	}
	if !done || p.Get("state_err", 0) == 1 || p.Get("send_err", 0) == 1 {
		return
	}
	chain.mu.Lock()
	defer chain.mu.Unlock()
	if err != nil || len(chain.sends) != before+1 {
		w.Violate("C15.P", cls("P-second-send"), fmt.Sprintf("second send: err=%v, messages captured=%d", err, len(chain.sends)-before))
		return
	}
	cells, e := boc.DeserializeBoc(chain.sends[len(chain.sends)-1])
	if e != nil || len(cells) != 1 {
		w.Violate("C15.P", cls("P-boc"), "second message is not a single-root BOC")
		return
	}
	m := fromLib(cells[0])
	rd := &bitReader{c: m}
	rd.u(7)
	rd.u(8)
	rd.bytes(32)
	if fee := rd.u(4); fee != 0 {
		rd.u(int(fee) * 8)
	}
	hasInit := rd.u(1) == 1
	if hasInit {
		rd.u(1)
		rd.nextRef()
	}
	var body *hcell
	if rd.u(1) == 1 {
		body = rd.nextRef()
	} else {
		body = &hcell{bits: m.bits[rd.pos:], refs: m.refs[rd.ref:]}
	}
	if rd.bad {
		return
	}
	need := chain.state != "active"
	if need != hasInit {
		w.Violate("C15.P2", cls("P2-init"), fmt.Sprintf("second send, account %s: state-init attached=%v", chain.state, hasInit))
	}
	br := &bitReader{c: body}
	var got uint64
	switch fam {
	case "v3", "v4":
		br.u(512 + 64)
		got = br.u(32)
	case "v5beta":
		br.u(32 + 80 + 32)
		got = br.u(32)
	case "v5r1":
		br.u(32 + 32 + 32)
		got = br.u(32)
	default:
		return
	}
	exp := uint32(0)
	if chain.state == "active" {
		exp = chain.seqno
	}
	if !br.bad && uint32(got) != exp {
		w.Violate("C15.P3", cls("P3-seqno-second-send"), fmt.Sprintf("second send through the same wallet: account %s with stored seqno %d, message carries seqno %d", chain.state, chain.seqno, got))
	}
	w.Probe("second-send-checked")
}

func wl_max(v wallet.Version) int {
	switch c15family(v) {
	case "v3", "v4":
		return 4
	case "v5r1":
		return 255
	}
	return 254
}

func hash64(s string) uint64 {
	h := fnv.New64a()
	h.Write([]byte(s))
	return h.Sum64()
}

func init() {
	run.Register(&run.Engine{ID: "C15", Gen: genC15, Exec: execC15, Meta: run.Meta{
		Technique:   "deterministic simulation: real wallet send pipeline against a scripted chain model (chainsim) behind the wallet.blockchain interface under a simulated clock, with injected errors, latencies and inclusion times",
		Rule:        "one run = (version x key x workchain x sub-wallet x network id) x initial account state (none/uninit/active with a stored seqno/frozen) x history script (GetAccountState error/latency, SendMessage error/latency, seqno advancing never / at once / early / late / after the window, GetSeqno errors at chosen polls, poll latency 1 ms..7 s) x confirmation window 0 or 1 s..5 min; 1/6 of the active accounts show data that is not wallet data (cut short, empty, absent); a quarter of the runs sends a second time through the same Wallet after the account changed. Non-trivial = the wallet reached the chain party; distinct = distinct event-log digest among those. Abstract state = (version, account state, when the seqno advanced relative to the window, poll errors after the advance, number of polls).",
		Real:        []string{"wallet.New / GetAddress / GenerateWalletAddress / GenerateStateInit", "wallet.Wallet.SendV2 / RawSendV2 incl. confirmation polling", "NextMessageParams and message building of V3R1 V3R2 V4R1 V4R2 V5Beta V5R1 HighLoadV2R2 (V1/V2: address side only, message building is declared unimplemented)", "tlb/boc encoders underneath"},
		Simulated:   []string{"the blockchain party (chainsim: account model, inclusion, errors, latencies)", "clock (testing/synctest): time.Now, time.Since, time.Sleep of the confirmation loop"},
		Assumptions: []string{"wallet code cells are taken from the library's table (trusted); data and state-init cells are laid out and hashed by the harness", "boc.DeserializeBoc and the bit-level cell accessors are trusted to read back the captured message", "frozen accounts are not judged (the property does not say what to attach)", "A1-A3 (address half) is input sampling inside the workload, not what the simulator is for"},
	}})
}

// c15hasInit tells whether a captured external message carries an initial state.
func c15hasInit(payload []byte) (bool, error) {
	cells, err := boc.DeserializeBoc(payload)
	if err != nil || len(cells) != 1 {
		return false, fmt.Errorf("not a single-root BOC: %v", err)
	}
	rd := &bitReader{c: fromLib(cells[0])}
	rd.u(2)
	rd.u(2)
	rd.u(3)
	rd.u(8)
	rd.bytes(32)
	if fee := rd.u(4); fee != 0 {
		rd.u(int(fee) * 8)
	}
	has := rd.u(1) == 1
	if rd.bad {
		return false, errors.New("message cell too short")
	}
	return has, nil
}
