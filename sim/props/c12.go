package props

import (
	"bytes"
	"context"
	"crypto/ed25519"
	"crypto/sha256"
	"encoding/binary"
	"fmt"
	"sort"
	"strings"
	"sync"
	"testing"
	"time"

	"github.com/tonkeeper/tongo/liteclient"

	"verif/sim/core"
	"verif/sim/litesrv"
	"verif/sim/run"
	"verif/sim/tlref"
)

var (
	schemaOnce sync.Once
	schema     tlref.Schema
	schemaErr  error
)

func liteSchema() tlref.Schema {
	schemaOnce.Do(func() {
		schema, schemaErr = tlref.LoadSchema("/repo/liteclient/lite_api.tl")
	})
	if schemaErr != nil {
		panic("cannot load lite_api.tl: " + schemaErr.Error())
	}
	return schema
}

var c12roles = []string{"execC12", "(*Connection).ping", "(*Connection).reader", "(*Client).reader", "(*Connection).reconnect"}
var c12sites = []string{"registerCallback", "unregisterCallback", "processQueryAnswer", "(*Client).Request", "(*Connection).Send", "(*Connection).Status", "registerPing", "processPong", "setAverageRoundTrip", "(*Connection).reconnect", "setupEncryptedConnection"}

func genC12(seed uint64, index int, tier string) *run.Plan {
	g := core.NewRng(core.Mix(seed, 12))
	p := &run.Plan{Property: "C12", Tier: tier, Seed: seed, Index: index, P: map[string]int{}}
	big := tier == "thorough"
	p.P["nconn"] = 1 + g.Intn(3)
	maxCallers := 6
	if big {
		maxCallers = 12
	}
	callers := 1 + g.Intn(maxCallers)
	p.P["callers"] = callers
	p.P["timeout_ms"] = []int{500, 1000, 2000, 5000, 20000}[g.Intn(5)] + 1 + g.Intn(97)
	p.P["lat_c2s_us"] = []int{0, 100, 5000, 80000}[g.Intn(4)]
	p.P["lat_s2c_us"] = []int{0, 100, 5000, 80000}[g.Intn(4)]
	p.P["jit_us"] = []int{0, 50, 3000}[g.Intn(3)]
	p.P["split"] = g.Intn(2)
	p.P["think_min_us"] = []int{0, 0, 1000}[g.Intn(3)]
	p.P["think_max_us"] = p.P["think_min_us"] + []int{0, 500, 20000, 200000}[g.Intn(4)]
	span := []int{1, 50, 2000, 8000, 25000}[g.Intn(5)]
	p.P["span_ms"] = span
	p.P["auth"] = g.Intn(5) / 4
	for c := 0; c < callers; c++ {
		n := 1 + g.Intn(6)
		for i := 0; i < n; i++ {
			kind := []string{"req", "req", "req", "gettime", "mcinfo", "isok", "waitseq", "waitblock"}[g.Intn(8)]
			op := run.Op{Kind: kind, Caller: c, AtMs: g.Intn(span + 1), A: []int{0, 1, 5, 32, 200, 253, 254, 255, 1000, 70000}[g.Intn(10)]}
			if kind == "req" && g.Intn(3) == 0 {
				// the answer is padded: every size class of the TL bytes encoding and of the client's read buffers
				op.B = []int{1, 200, 213, 214, 215, 4000, 65535 - 40, 65536 - 40, 65536, 100000, 1 << 20}[g.Intn(11)]
			}
			if kind == "waitseq" || kind == "waitblock" {
				op.A = 98 + g.Intn(4)                      // target seqno around the server's head (100)
				op.B = []int{1, 100, 700, 3000}[g.Intn(4)] // server-side wait in ms
			}
			p.Ops = append(p.Ops, op)
		}
	}
	if g.Intn(3) == 0 {
		p.P["pct"] = 1 + g.Intn(3) // PCT-style scheduling with this many priority change points
		p.P["pct_span"] = 50 + g.Intn(2000)
	}
	if g.Intn(4) == 0 {
		p.P["faultfree"] = 1
		// latencies and think times stay far below the timeout
		if p.P["think_max_us"] > 20000 {
			p.P["think_max_us"] = 20000
		}
		return p
	}
	// server misbehaviour: a random subset
	if g.Intn(3) == 0 {
		p.P["drop_pm"] = []int{50, 300, 1000}[g.Intn(3)]
	}
	if g.Intn(3) == 0 {
		p.P["dup_pm"] = []int{100, 500, 1000}[g.Intn(3)]
	}
	if g.Intn(3) == 0 {
		p.P["bogus_pm"] = []int{100, 500}[g.Intn(2)]
	}
	if g.Intn(3) == 0 {
		p.P["junk_pm"] = []int{100, 500}[g.Intn(2)]
	}
	if g.Intn(4) == 0 {
		p.P["think_max_us"] = []int{2000000, 10000000, 30000000}[g.Intn(3)] // answers held for seconds
	}
	if g.Intn(5) == 0 {
		// answers become ready right around the callers' deadline: the window between "deadline passed"
		// and "reply channel unregistered" is where a late answer meets a caller that stopped listening
		p.P["think_min_us"] = p.P["timeout_ms"]*1000 - 3000
		p.P["think_max_us"] = p.P["timeout_ms"]*1000 + 3000
		p.P["lat_c2s_us"], p.P["lat_s2c_us"], p.P["jit_us"] = 0, 0, 0
		if g.Intn(2) == 0 {
			p.Stalls = append(p.Stalls, core.Stall{Role: "execC12", Site: "unregisterCallback", Nth: 1 + g.Intn(3), DelayMs: []int{5, 40, 700}[g.Intn(3)]})
		}
	}
	nf := g.Intn(5)
	if big {
		nf = g.Intn(12)
	}
	kinds := []string{"close", "close", "reset", "blackhole", "refuse", "dialdelay", "acceptstall", "writestall", "nopong", "stream", "hsclose"}
	for i := 0; i < nf; i++ {
		k := kinds[g.Intn(len(kinds))]
		f := run.Fault{Kind: k, AtMs: g.Intn(span + 3000), Conn: g.Intn(p.P["nconn"] + 1)}
		switch k {
		case "close":
			f.A = g.Intn(3) // grace
		case "refuse", "acceptstall", "nopong", "hsclose":
			f.A = []int{500, 3000, 15000, 40000}[g.Intn(4)] // duration ms
		case "dialdelay":
			f.A = []int{200, 2500, 12000}[g.Intn(3)]
			f.B = []int{3000, 20000}[g.Intn(2)]
		case "writestall":
			f.A = []int{1000, 8000, 30000}[g.Intn(3)]
			f.B = []int{300, 4096, 70000}[g.Intn(3)] // socket buffer bytes
		case "stream":
			f.Stream = &core.StreamFault{Dir: g.Intn(2), Frame: 1 + g.Intn(12), Region: []string{"len", "nonce", "payload", "hash"}[g.Intn(4)], Permille: g.Intn(1000), Kind: []string{"flip", "truncate", "dup", "drop"}[g.Intn(4)], Arg: 1 + g.Intn(30)}
			if f.Stream.Kind == "flip" {
				f.Stream.Arg = 1 << g.Intn(8)
			}
		}
		p.Faults = append(p.Faults, f)
	}
	ns := 0
	if g.Intn(3) == 0 {
		ns = 1 + g.Intn(3)
	}
	for i := 0; i < ns; i++ {
		p.Stalls = append(p.Stalls, core.Stall{Role: c12roles[g.Intn(len(c12roles))], Site: c12sites[g.Intn(len(c12sites))], Nth: 1 + g.Intn(6), DelayMs: []int{1, 40, 700, 4000, 30000}[g.Intn(5)]})
	}
	return p
}

type c12op struct {
	op       run.Op
	caller   int
	k        int
	payload  []byte
	started  bool
	done     bool
	start    time.Duration
	end      time.Duration
	err      error
	resp     []byte
	isok     bool
	now      uint32
	seqno    uint32
	panicked any
}

func c12payload(seed uint64, caller, k, size int) []byte {
	b := core.NewRng(core.Mix(seed, uint64(caller*100+k)+12000)).Bytes(size + 8)
	copy(b, []byte(fmt.Sprintf("%02d%02d", caller, k)))
	b[4], b[5], b[6], b[7] = 0xEE, 0xEE, 0xEE, 0xEE // never a liteServer.query magic
	return b
}

// c12sized marks a payload as asking for an answer padded by pad bytes (see litesrv echo).
func c12sized(b []byte, pad int) []byte {
	for len(b) < 12 {
		b = append(b, 0)
	}
	b[7] = 0xEF
	binary.LittleEndian.PutUint32(b[8:12], uint32(pad))
	return b
}

func c12echoPad(payload []byte, pad int) []byte {
	h := sha256.Sum256(payload)
	out := make([]byte, pad)
	for i := range out {
		out[i] = h[i%32] ^ byte(i>>5)
	}
	return out
}

func execC12(t *testing.T, w *core.World, p *run.Plan, r *run.Result) {
	sch := liteSchema()
	srv := litesrv.New(w, serverKeyFromSeed(p.Seed, 0), sch, 0, 100)
	srv.Beh = litesrv.Behaviour{ThinkMinUs: p.Get("think_min_us", 0), ThinkMaxUs: p.Get("think_max_us", 0),
		DropPermille: p.Get("drop_pm", 0), DupPermille: p.Get("dup_pm", 0), BogusPermille: p.Get("bogus_pm", 0), JunkPermille: p.Get("junk_pm", 0)}
	h := w.Net.AddHost("sim:0", srv)
	srv.Host = h
	h.Latency[core.C2S] = core.LatencyModel{BaseUs: p.Get("lat_c2s_us", 0), JitterUs: p.Get("jit_us", 0)}
	h.Latency[core.S2C] = core.LatencyModel{BaseUs: p.Get("lat_s2c_us", 0), JitterUs: p.Get("jit_us", 0)}
	w.Net.Split = p.Get("split", 0) == 1
	w.Providers = append(w.Providers, srv.Actions)
	nconn := p.Get("nconn", 1)
	timeout := time.Duration(p.Get("timeout_ms", 5000)) * time.Millisecond
	faultFree := p.Get("faultfree", 0) == 1
	stalled := len(p.Stalls) > 0
	writeStall := false
	blackholed := false
	corrupted := false

	var mu sync.Mutex
	var client *liteclient.Client
	var setupErr error
	setupDone := false
	w.At(0, "setup", func() {
		go func() {
			w.Tag("setup")
			var authKeys []ed25519.PrivateKey
			if p.Get("auth", 0) == 1 {
				// the optional client authentication (tcp.authentificate): every (re)connect goes through the extra exchange
				authKeys = append(authKeys, ed25519.NewKeyFromSeed(core.NewRng(core.Mix(p.Seed, 4242)).Bytes(32)))
			}
			conn, err := liteclient.NewConnection(context.Background(), srv.Key.Pub, "sim:0", authKeys...)
			if err != nil {
				mu.Lock()
				setupErr, setupDone = err, true
				mu.Unlock()
				return
			}
			c := liteclient.NewClient(conn, liteclient.OptionTimeout(timeout), liteclient.OptionWorkersPerConnection(nconn))
			mu.Lock()
			client, setupDone = c, true
			mu.Unlock()
		}()
	})
	setupHorizon := 30 * time.Second
	for _, st := range p.Stalls {
		setupHorizon += time.Duration(st.DelayMs) * time.Millisecond
	}
	if !w.Run(func() bool { mu.Lock(); defer mu.Unlock(); return setupDone }, 20000, setupHorizon) || setupErr != nil {
		w.Violate("C12.setup", "C12.setup|none", fmt.Sprintf("fault-free connection setup failed: done=%v err=%v", setupDone, setupErr))
		return
	}
	tReady := w.Now()
	setPCT(w, p)
	dialsAtReady := h.Dials
	gReady := core.BubbleGoroutines()
	profReady := core.BubbleGoroutineProfile()
	if dialsAtReady != nconn {
		// a stall during the setup can outlast the 10 s silence timer of a connection that is already up
		w.Probe("reconnect-during-setup")
	}

	// ---- workload ----
	var ops []*c12op
	byCaller := map[int][]*c12op{}
	for _, op := range p.Ops {
		o := &c12op{op: op, caller: op.Caller, k: len(byCaller[op.Caller])}
		if op.Kind == "req" {
			o.payload = c12payload(p.Seed, o.caller, o.k, op.A)
			if op.B > 0 {
				o.payload = c12sized(o.payload, op.B)
			}
		}
		ops = append(ops, o)
		byCaller[op.Caller] = append(byCaller[op.Caller], o)
	}
	callers := make([]int, 0, len(byCaller))
	for c := range byCaller {
		callers = append(callers, c)
	}
	sort.Ints(callers)
	doOp := func(o *c12op) {
		defer func() {
			if x := recover(); x != nil {
				mu.Lock()
				o.panicked, o.done, o.end = x, true, w.Now()
				mu.Unlock()
			}
		}()
		mu.Lock()
		o.started, o.start = true, w.Now()
		mu.Unlock()
		var resp []byte
		var err error
		var ok bool
		var now, seqno uint32
		switch o.op.Kind {
		case "req":
			resp, err = client.Request(context.Background(), o.payload)
		case "gettime":
			var res liteclient.LiteServerCurrentTimeC
			res, err = client.LiteServerGetTime(context.Background())
			now = res.Now
		case "mcinfo":
			var res liteclient.LiteServerMasterchainInfoC
			res, err = client.LiteServerGetMasterchainInfo(context.Background())
			seqno = res.Last.Seqno
		case "isok":
			ok = client.IsOK()
		case "waitseq":
			err = client.WaitMasterchainSeqno(context.Background(), uint32(o.op.A), uint32(o.op.B))
		case "waitblock":
			var res liteclient.LiteServerBlockHeaderC
			res, err = client.WaitMasterchainBlock(context.Background(), uint32(o.op.A), uint32(o.op.B))
			seqno = res.Id.Seqno
		}
		mu.Lock()
		o.done, o.end, o.err, o.resp, o.isok, o.now, o.seqno = true, w.Now(), err, resp, ok, now, seqno
		mu.Unlock()
	}
	for _, c := range callers {
		c := c
		list := byCaller[c]
		sort.SliceStable(list, func(i, j int) bool { return list[i].op.AtMs < list[j].op.AtMs })
		w.At(0, fmt.Sprintf("start caller %d", c), func() {
			go func() {
				w.Tag(fmt.Sprintf("caller-%02d", c))
				for _, o := range list {
					if d := tReady + time.Duration(o.op.AtMs)*time.Millisecond - w.Now(); d > 0 {
						time.Sleep(d)
					}
					doOp(o)
				}
			}()
		})
	}

	// ---- faults ----
	var lastFault time.Duration
	connByOrd := func(k int) *core.Conn {
		// the k-th live connection in canonical order (connections come and go with reconnects)
		var live []*core.Conn
		for _, c := range w.Net.Ordered() {
			if c.Alive() {
				live = append(live, c)
			}
		}
		if len(live) == 0 {
			return nil
		}
		return live[k%len(live)]
	}
	var stalledConns []*core.Conn
	for i, f := range p.Faults {
		f := f
		at := tReady + time.Duration(f.AtMs)*time.Millisecond + time.Duration(i+1)*time.Microsecond
		end := at
		switch f.Kind {
		case "close":
			w.AtAbs(at, "fault close", func() {
				if c := connByOrd(f.Conn); c != nil {
					srv.DropConn(c)
					c.ServerClose(f.A)
				}
			})
		case "reset":
			w.AtAbs(at, "fault reset", func() {
				if c := connByOrd(f.Conn); c != nil {
					srv.DropConn(c)
					c.Reset()
				}
			})
		case "blackhole":
			blackholed = true
			w.AtAbs(at, "fault blackhole", func() {
				if c := connByOrd(f.Conn); c != nil {
					c.Blackhole(150 * time.Second)
				}
			})
			end = at + 150*time.Second
		case "refuse":
			end = at + time.Duration(f.A)*time.Millisecond
			w.AtAbs(at, "fault refuse-dials", func() { h.Refuse = true })
			w.AtAbs(end, "heal refuse-dials", func() { h.Refuse = false })
		case "dialdelay":
			end = at + time.Duration(f.B)*time.Millisecond
			w.AtAbs(at, "fault dial-delay", func() { h.DialDelay = time.Duration(f.A) * time.Millisecond })
			w.AtAbs(end, "heal dial-delay", func() { h.DialDelay = 0 })
			end += time.Duration(f.A) * time.Millisecond
		case "hsclose":
			// the server restarts: the connections it has are closed, and for a while every new one is closed in an
			// orderly way right after its handshake was read
			end = at + time.Duration(f.A)*time.Millisecond
			w.AtAbs(at, "fault close-on-handshake", func() {
				srv.Beh.CloseOnHandshake = true
				for _, c := range w.Net.Ordered() {
					if c.Alive() {
						srv.DropConn(c)
						c.ServerClose(0)
					}
				}
			})
			w.AtAbs(end, "heal close-on-handshake", func() { srv.Beh.CloseOnHandshake = false })
		case "acceptstall":
			end = at + time.Duration(f.A)*time.Millisecond
			w.AtAbs(at, "fault accept-then-stall", func() { h.AcceptStall = true })
			w.AtAbs(end, "heal accept-then-stall", func() {
				h.AcceptStall = false
				// the stalled server restarts: connections it never served are reset
				for _, c := range w.Net.Ordered() {
					if c.Alive() && c.Stalled() {
						c.Reset()
					}
				}
			})
		case "writestall":
			if p.Free {
				continue // a goroutine waiting on a real mutex behind a stalled writer is not durably blocked: the bubble could not reach quiescence
			}
			writeStall = true
			end = at + time.Duration(f.A)*time.Millisecond
			w.AtAbs(at, "fault write-stall", func() {
				if c := connByOrd(f.Conn); c != nil {
					c.SetBufLimit(f.B)
					c.SetServerReading(false)
					stalledConns = append(stalledConns, c)
				}
			})
			w.AtAbs(end, "heal write-stall", func() {
				for _, c := range stalledConns {
					c.SetServerReading(true)
				}
			})
		case "nopong":
			end = at + time.Duration(f.A)*time.Millisecond
			w.AtAbs(at, "fault no-pong", func() { srv.Beh.NoPong = true; w.Net.Fired["no-pong"]++ })
			w.AtAbs(end, "heal no-pong", func() { srv.Beh.NoPong = false })
		case "stream":
			corrupted = true
			w.AtAbs(at, "fault stream-corruption", func() {
				if c := connByOrd(f.Conn); c != nil && f.Stream != nil {
					sf := *f.Stream
					sf.Frame += c.Frames(sf.Dir)
					c.AddStreamFault(sf)
				}
			})
		}
		if end > lastFault {
			lastFault = end
		}
	}

	// ---- abstract state + invariants at every quiescent point ----
	reconnects := 0
	w.OnQuiescent = func(now time.Duration) {
		if p.Free {
			return // the lock-free accessors are only race-free in controlled mode
		}
		views := client.SimView()
		st := ""
		for _, v := range views {
			if v.Connected {
				st += "C"
			} else {
				st += "c"
			}
		}
		reconnects = h.Dials - dialsAtReady
		w.Visit(hash64(fmt.Sprintf("%s|q%d|p%d|h%d|r%d", st, min(client.SimPendingQueries(), 6), min(srv.PendingCount(), 6), min(srv.HeldCount(), 3), reconnects%4)))
		if faultFree {
			for i, v := range views {
				if !v.Connected {
					w.Violate("C12.F-isok", "C12.F|status|faultfree", fmt.Sprintf("connection %d left the Connected state in a fault-free run", i))
				}
			}
		}
	}

	span := time.Duration(p.Get("span_ms", 1000)) * time.Millisecond
	allDone := func() bool {
		mu.Lock()
		defer mu.Unlock()
		for _, o := range ops {
			if !o.done {
				return false
			}
		}
		return w.Now() >= lastFault && w.PendingEvents() == 0
	}
	mainHorizon := tReady + span + timeout + 35*time.Second
	if lastFault+time.Second > mainHorizon {
		mainHorizon = lastFault + time.Second
	}
	for _, s := range p.Stalls {
		mainHorizon += time.Duration(s.DelayMs) * time.Millisecond
	}
	w.Run(allDone, 60000, mainHorizon)
	gMid := core.BubbleGoroutines()

	// ---- drain phase: faults stop, the server is healthy, fair scheduling ----
	h.Refuse, h.DialDelay, h.AcceptStall = false, 0, false
	srv.Beh = litesrv.Behaviour{}
	w.Sched.DisableStalls()
	for _, c := range w.Net.Ordered() {
		if c.Alive() {
			c.SetServerReading(true)
			if c.Stalled() {
				c.Reset()
			}
		}
	}
	w.Fair = true
	R := 60 * time.Second
	if blackholed {
		R = 180 * time.Second
	}
	drainStart := w.Now()
	w.Run(func() bool { return false }, w.Steps+40000, drainStart+R)

	// probes: one request per connection slot must succeed with its own answer (L1)
	var probes []*c12op
	probesDone := false
	judgeL1 := !corrupted // after in-stream corruption the property promises nothing (DESIGN 5.1/5.2)
	w.At(0, "probes", func() {
		go func() {
			w.Tag("prober")
			for i := 0; i < nconn; i++ {
				o := &c12op{op: run.Op{Kind: "req"}, caller: 99, k: i, payload: c12payload(p.Seed, 99, i, 40)}
				mu.Lock()
				probes = append(probes, o)
				mu.Unlock()
				doOp(o)
			}
			mu.Lock()
			probesDone = true
			mu.Unlock()
		}()
	})
	w.Run(func() bool { mu.Lock(); defer mu.Unlock(); return probesDone }, w.Steps+20000, w.Now()+timeout*time.Duration(nconn)+5*time.Second)
	gEnd := core.BubbleGoroutines()
	profEnd := core.BubbleGoroutineProfile()

	// ---- oracles ----
	tagOf := func() string {
		var ks []string
		for k, v := range w.Net.Fired {
			if v > 0 && k != "split" {
				ks = append(ks, k)
			}
		}
		sort.Strings(ks)
		if len(ks) == 0 {
			return "none"
		}
		return strings.Join(ks, "+")
	}
	ftag := tagOf()
	if len(ftag) > 60 {
		ftag = ftag[:60]
	}
	blockedDuring := func(from, to time.Duration) bool {
		for _, c := range w.Net.Ordered() {
			if c.WriteBlockedDuring(from, to) {
				return true
			}
		}
		return false
	}
	okCount, toCount, otherErr := 0, 0, 0
	mu.Lock()
	defer mu.Unlock()
	for _, o := range append(append([]*c12op{}, ops...), probes...) {
		name := fmt.Sprintf("caller %d op %d (%s)", o.caller, o.k, o.op.Kind)
		if o.panicked != nil {
			w.Violate("C12.S3", "C12.S3|panic|"+stripNums(fmt.Sprint(o.panicked)), fmt.Sprintf("%s panicked: %v", name, o.panicked))
			continue
		}
		if !o.started {
			continue
		}
		if !o.done {
			cls := "C12.L2|not-returned"
			if writeStall && blockedDuring(o.start, w.Now()) {
				cls = "C12.S2|write-stall|not-returned"
			}
			w.Violate("C12.L2", cls, fmt.Sprintf("%s started at %v never returned (timeout %v, now %v); waiting: %s", name, o.start, timeout, w.Now(), strings.Join(w.Sched.Held(), "; ")))
			r.Picture = core.BubbleStacks()
			continue
		}
		if o.op.Kind == "isok" {
			if faultFree && !o.isok {
				w.Violate("C12.F-isok", "C12.F|isok|faultfree", name+": IsOK() false in a fault-free run")
			}
			continue
		}
		dur := o.end - o.start
		if o.err == nil {
			okCount++
			switch o.op.Kind {
			case "req":
				hh := sha256.Sum256(o.payload)
				if len(o.resp) != 40+o.op.B || !bytes.Equal(o.resp[:4], []byte("ECHO")) || !bytes.Equal(o.resp[4:36], hh[:]) || !bytes.Equal(o.resp[40:], c12echoPad(o.payload, o.op.B)) {
					w.Violate("C12.S1", "C12.S1|wrong-answer", fmt.Sprintf("%s got %d bytes %x.. which is not the server's answer for its own payload", name, len(o.resp), head(o.resp)))
				}
			case "gettime":
				lo := w.StartTime().Add(o.start).Unix()
				hi := w.StartTime().Add(o.end).Unix()
				if int64(o.now) < lo || int64(o.now) > hi {
					w.Violate("C12.S4", "C12.S4|gettime", fmt.Sprintf("%s decoded now=%d outside [%d,%d]", name, o.now, lo, hi))
				}
			case "mcinfo":
				if o.seqno != 100 {
					w.Violate("C12.S4", "C12.S4|mcinfo", fmt.Sprintf("%s decoded seqno=%d, server head is 100", name, o.seqno))
				}
			case "waitseq":
				if o.op.A > 100 {
					w.Violate("C12.S4", "C12.S4|waitseq", fmt.Sprintf("%s for seqno %d returned nil although the server's head never passed 100", name, o.op.A))
				}
			case "waitblock":
				if o.op.A > 100 || int(o.seqno) != o.op.A {
					w.Violate("C12.S4", "C12.S4|waitblock", fmt.Sprintf("%s for seqno %d returned header of block %d (server head 100)", name, o.op.A, o.seqno))
				}
			}
			if dur > timeout && !stalled && !(writeStall && blockedDuring(o.start, o.end)) {
				w.Violate("C12.S2", "C12.S2|late-success", fmt.Sprintf("%s returned success after %v > timeout %v", name, dur, timeout))
			}
		} else {
			es := o.err.Error()
			isTimeout := (strings.Contains(es, "request timeout") || strings.Contains(es, "deadline exceeded")) && !strings.Contains(es, "error code:")
			if isTimeout {
				toCount++
				if dur < timeout {
					w.Violate("C12.S2", "C12.S2|early-timeout", fmt.Sprintf("%s reported a timeout after %v < %v", name, dur, timeout))
				}
			} else {
				otherErr++
			}
			if dur > timeout && !stalled {
				cls := "C12.S2|late"
				if writeStall && blockedDuring(o.start, o.end) {
					cls = "C12.S2|write-stall|late"
				}
				w.Violate("C12.S2", cls, fmt.Sprintf("%s returned %q after %v, later than its timeout %v", name, es, dur, timeout))
			}
			// a wait for a block the server never produces ends with the server's 652 or, if the server-side wait
			// is longer than the client's timeout, with the client's own timeout: both are the right answer
			serverSaidNo := (o.op.Kind == "waitseq" || o.op.Kind == "waitblock") && o.op.A > 100
			if faultFree && !serverSaidNo {
				w.Violate("C12.F", "C12.F|error|faultfree", fmt.Sprintf("%s failed in a fault-free run: %v", name, o.err))
			}
			if o.caller == 99 && judgeL1 {
				w.Violate("C12.L1", "C12.L1|probe", fmt.Sprintf("after faults stopped (%s) and %v of healthy server, probe request %d failed: %v (dials=%d)", ftag, R, o.k, o.err, h.Dials))
			}
		}
	}
	if judgeL1 && p.Free {
		if !client.IsOK() {
			w.Violate("C12.L1", "C12.L1|status", fmt.Sprintf("IsOK() is false %v after the last fault (dials=%d)", w.Now()-lastFault, h.Dials))
		}
	}
	if judgeL1 && !p.Free {
		for i, v := range client.SimView() {
			if !v.Connected {
				w.Violate("C12.L1", "C12.L1|status", fmt.Sprintf("connection %d is not Connected %v after the last fault (faults fired: %s; dials=%d)", i, w.Now()-lastFault, ftag, h.Dials))
			}
		}
	}
	if n := 0; !p.Free && client.SimPendingQueries() != 0 {
		n = client.SimPendingQueries()
		w.Violate("C12.G2", "C12.G2|registry-leak", fmt.Sprintf("%d reply channels remain registered after all calls returned", n))
	}
	if faultFree {
		if h.Dials != dialsAtReady {
			w.Violate("C12.F", "C12.F|reconnect|faultfree", fmt.Sprintf("%d extra dials in a fault-free run", h.Dials-dialsAtReady))
		}
	}
	// W: nothing altered the client's bytes on these connections, so every frame the spec server completed must have
	// been well-formed (a frame the client garbled itself - a stream cipher out of step, a half-written frame that
	// was continued - is not "received with exactly the payload that was sent")
	for _, g := range srv.GarbageFromClient {
		w.Violate("C12.wire", "C12.wire|client-sent-garbage", "the server's ADNL receiver rejected a frame on a connection whose client-to-server bytes were not altered in transit: "+g)
		break
	}
	// G3: whatever happened in between, a healthy client at the end of the drain runs the goroutines a healthy client
	// ran after the setup; a kind of goroutine of the library that there are two or more of in excess is a leak
	for _, l := range core.GoroutineLeaks(profReady, profEnd) {
		fn := strings.SplitN(l, ":", 2)[0]
		w.Violate("C12.G3", "C12.G3|goroutine-leak|"+fn[strings.LastIndex(fn, "/")+1:], fmt.Sprintf("goroutines left behind after the drain (all calls returned, faults over for %v): %s; %d dials since the setup", w.Now()-lastFault, l, h.Dials-dialsAtReady))
	}
	if d := gEnd - gReady; d != 0 {
		w.Probe(fmt.Sprintf("goroutines-after-drain-vs-ready=%+d", max(-3, min(d, 5))))
	} else {
		w.Probe("goroutines-after-drain-vs-ready=0")
	}
	// G1: goroutines do not grow with completed calls (compared only when no dial happened in between)
	if gEnd > gMid && reconnects == h.Dials-dialsAtReady && faultFree {
		w.Violate("C12.G1", "C12.G1|goroutines", fmt.Sprintf("goroutines in the bubble grew from %d to %d across %d probe calls without any dial", gMid, gEnd, nconn))
	}
	if faultFree && len(ops) > 0 {
		// every fault-free call sequence leaves the same number of goroutines as the setup did
		w.Probe("faultfree-run")
	}
	w.Probe(fmt.Sprintf("calls-ok=%d", min(okCount, 1)))
	if toCount > 0 {
		w.Probe("call-timed-out")
	}
	if otherErr > 0 {
		w.Probe("call-other-error")
	}
	if reconnects > 0 {
		w.Probe("reconnected")
	}
	r.Nontrivial = len(w.Net.Fired) > 0 || w.Sched.StallsFired > 0 || len(callers) > 1
}

func init() {
	run.Register(&run.Engine{ID: "C12", Gen: genC12, Exec: execC12, Meta: run.Meta{
		Technique:   "deterministic simulation with fault injection: real liteclient.Client/Connection stack in a synctest bubble; seeded driver owns every mutex grant, the TCP stream, the (adversarial) lite server, the clock and the randomness; free-running -race mode over the same plans for data races",
		Rule:        "one run = 1-3 connections, 1-6 (quick) / 1-12 (thorough) caller goroutines with 1-6 ops each (Request with a unique payload, LiteServerGetTime, LiteServerGetMasterchainInfo, IsOK) started at drawn instants; server answers in any order the driver picks, holds, drops, duplicates, adds answers for unknown ids and junk packets; faults: close (grace 0-2 writes), reset, black-hole (150 s keep-alive), refused / slow dials, accept-then-stall (ended by a reset), write-stall with a finite socket buffer, missing pongs, in-stream corruption; 0-3 stalls of a (goroutine role, lock site) for 1 ms..30 s. A quarter of the runs is fault-free and strict. Non-trivial = a fault or stall fired or >= 2 callers; distinct = event-log digest. Abstract state = (Connected flags per connection, registered queries, server-pending answers, held long-polls, reconnects mod 4) at quiescent points.",
		Real:        []string{"liteclient.Client (Request, registerCallback/unregisterCallback, processQueryAnswer, reader, round-robin)", "liteclient.Connection (Send, reader, ping, reconnect, setupEncryptedConnection, status machine)", "liteclient.encryptedConn / ParsePacket", "generated LiteServerGetTime / LiteServerGetMasterchainInfo wrappers and tl decoding"},
		Simulated:   []string{"TCP (simnet)", "lite server (litesrv + independent ADNL + independent TL codec)", "clock (testing/synctest)", "crypto/rand, math/rand (seeded)", "goroutine interleaving at every mutex acquisition (controlled mode); Go scheduler under -race (free-running mode)"},
		Assumptions: []string{"interleavings are varied at lock acquisitions, network deliveries, timer instants and injected stalls; two goroutines that meet on a channel without taking a lock in between run in the runtime's order", "bounded liveness R = 60 simulated s after the last fault (180 s after a black-hole: keep-alive bound)", "recovery is asserted after server close / reset / refused or slow dials / stalls that end in a reset, not after in-stream corruption", "data races: free-running mode replays statistically, not exactly"},
	}})
}

// setPCT switches the world to PCT-style scheduling if the plan asks for it; the change points are
// derived from the plan seed (so they are part of the plan, not of the schedule trace).
func setPCT(w *core.World, p *run.Plan) {
	n := p.Get("pct", 0)
	if n <= 0 || p.Free {
		return
	}
	g := core.NewRng(core.Mix(p.Seed, 0x9c7))
	w.PCT = true
	for i := 0; i < n; i++ {
		w.PCTChanges = append(w.PCTChanges, w.Steps+1+g.Intn(p.Get("pct_span", 500)))
	}
}
