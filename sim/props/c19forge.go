package props

import (
	"crypto/ed25519"
	"crypto/sha512"

	"github.com/oasisprotocol/curve25519-voi/curve"
	"github.com/oasisprotocol/curve25519-voi/curve/scalar"

	"verif/sim/core"
)

// forgeSmallOrder produces an Ed25519 signature of msg that verifies under the all-zero "public key".
// Thirty-two zero bytes decode to the point (sqrt(-1), 0), which has order 4: for a key A of small order
// [k]A takes only four values, so an attacker picks s, guesses T = [k]A, sets R = [s]B - T and wins with
// probability 1/4 per try. No private key is involved - which is exactly why a server must never verify
// against a key it did not actually extract from a wallet's data.
func forgeSmallOrder(msg []byte, g *core.SplitMix64) ([]byte, bool) {
	zeroKey := make([]byte, 32)
	cy, err := curve.NewCompressedEdwardsYFromBytes(zeroKey)
	if err != nil {
		return nil, false
	}
	A, err := curve.NewEdwardsPoint().SetCompressedY(cy)
	if err != nil {
		return nil, false
	}
	cands := []*curve.EdwardsPoint{curve.NewEdwardsPoint().Identity()}
	acc := curve.NewEdwardsPoint().Identity()
	for i := 0; i < 3; i++ {
		acc = curve.NewEdwardsPoint().Add(acc, A)
		cands = append(cands, acc)
	}
	for try := 0; try < 200; try++ {
		s, err := scalar.New().SetBytesModOrderWide(g.Bytes(64))
		if err != nil {
			return nil, false
		}
		sB := curve.NewEdwardsPoint().MulBasepoint(curve.ED25519_BASEPOINT_TABLE, s)
		for _, T := range cands {
			R := curve.NewEdwardsPoint().Sub(sB, T)
			var rc curve.CompressedEdwardsY
			rc.SetEdwardsPoint(R)
			h := sha512.New()
			h.Write(rc[:])
			h.Write(zeroKey)
			h.Write(msg)
			k, err := scalar.New().SetBytesModOrderWide(h.Sum(nil))
			if err != nil {
				continue
			}
			if curve.NewEdwardsPoint().Mul(A, k).Equal(T) != 1 {
				continue
			}
			sig := make([]byte, 64)
			copy(sig, rc[:])
			if err := s.ToBytes(sig[32:]); err != nil {
				continue
			}
			if ed25519.Verify(ed25519.PublicKey(zeroKey), msg, sig) {
				return sig, true
			}
		}
	}
	return nil, false
}
