package props

import (
	"crypto/sha256"

	"github.com/tonkeeper/tongo/boc"
)

// An independent implementation of the TON cell representation hash for ordinary (and library)
// cells of level 0, used by the C15/C19 oracles. It only uses the library to enumerate the bits
// and references of cells the library itself parsed (wallet code cells); data and state-init
// cells are laid out by the harness.

type hcell struct {
	bits   []bool
	refs   []*hcell
	exotic bool
	hash   [32]byte
	depth  int
	done   bool
}

func (c *hcell) u(v uint64, n int) *hcell {
	for i := n - 1; i >= 0; i-- {
		c.bits = append(c.bits, (v>>uint(i))&1 == 1)
	}
	return c
}

func (c *hcell) bytes(b []byte) *hcell {
	for _, x := range b {
		c.u(uint64(x), 8)
	}
	return c
}

func (c *hcell) ref(r *hcell) *hcell { c.refs = append(c.refs, r); return c }

func (c *hcell) compute() {
	if c.done {
		return
	}
	for _, r := range c.refs {
		r.compute()
	}
	n := len(c.bits)
	d1 := byte(len(c.refs))
	if c.exotic {
		d1 |= 8
	}
	d2 := byte(n/8 + (n+7)/8)
	buf := []byte{d1, d2}
	data := make([]byte, (n+7)/8)
	for i, b := range c.bits {
		if b {
			data[i/8] |= 0x80 >> uint(i%8)
		}
	}
	if n%8 != 0 {
		data[n/8] |= 0x80 >> uint(n%8)
	}
	buf = append(buf, data...)
	depth := 0
	for _, r := range c.refs {
		buf = append(buf, byte(r.depth>>8), byte(r.depth))
		if r.depth+1 > depth {
			depth = r.depth + 1
		}
	}
	for _, r := range c.refs {
		buf = append(buf, r.hash[:]...)
	}
	c.hash = sha256.Sum256(buf)
	c.depth = depth
	c.done = true
}

// fromLib copies the bits and references of a cell parsed by the library.
func fromLib(c *boc.Cell) *hcell {
	return fromLibMemo(c, map[*boc.Cell]*hcell{})
}

func fromLibMemo(c *boc.Cell, memo map[*boc.Cell]*hcell) *hcell {
	if h, ok := memo[c]; ok {
		return h
	}
	h := &hcell{exotic: c.IsExotic()}
	bs := c.RawBitString()
	bs.ResetCounter()
	for bs.BitsAvailableForRead() > 0 {
		b, err := bs.ReadBit()
		if err != nil {
			break
		}
		h.bits = append(h.bits, b)
	}
	for _, r := range c.Refs() {
		h.refs = append(h.refs, fromLibMemo(r, memo))
	}
	memo[c] = h
	return h
}

// bitReader reads an hcell's bits.
type bitReader struct {
	c   *hcell
	pos int
	ref int
	bad bool
}

func (r *bitReader) u(n int) uint64 {
	var v uint64
	for i := 0; i < n; i++ {
		if r.pos >= len(r.c.bits) {
			r.bad = true
			return v
		}
		v <<= 1
		if r.c.bits[r.pos] {
			v |= 1
		}
		r.pos++
	}
	return v
}

func (r *bitReader) bytes(n int) []byte {
	out := make([]byte, n)
	for i := range out {
		out[i] = byte(r.u(8))
	}
	return out
}

func (r *bitReader) nextRef() *hcell {
	if r.ref >= len(r.c.refs) {
		r.bad = true
		return &hcell{}
	}
	x := r.c.refs[r.ref]
	r.ref++
	return x
}
