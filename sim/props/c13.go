package props

import (
	"context"
	"encoding/base64"
	"fmt"
	"sort"
	"strings"
	"sync"
	"testing"
	"time"

	"github.com/anishathalye/porcupine"

	"github.com/tonkeeper/tongo/config"
	"github.com/tonkeeper/tongo/liteapi"
	"github.com/tonkeeper/tongo/liteapi/pool"
	"github.com/tonkeeper/tongo/liteclient"

	"verif/sim/core"
	"verif/sim/litesrv"
	"verif/sim/run"
)

var c13roles = []string{"execC13", "(*ConnPool).Run", "(*connection).Run", "(*Client).reader"}
var c13sites = []string{"(*ConnPool).unsubscribe", "(*ConnPool).subscribe", "(*ConnPool).notifySubscribers", "(*connection).SetMasterHead", "(*ConnPool).updateBest", "(*ConnPool).bestConnection", "(*connection).MasterHead"}

func genC13(seed uint64, index int, tier string) *run.Plan {
	g := core.NewRng(core.Mix(seed, 13))
	p := &run.Plan{Property: "C13", Tier: tier, Seed: seed, Index: index, P: map[string]int{}}
	ns := 1 + g.Intn(4)
	p.P["servers"] = ns
	p.P["maxconn"] = 1 + g.Intn(ns)
	if g.Intn(2) == 0 {
		p.P["maxconn"] = ns
	}
	p.P["strategy"] = g.Intn(2) // 0 best-ping, 1 first-working
	p.P["workers"] = 1 + g.Intn(2)
	p.P["async"] = g.Intn(4) / 3
	p.P["via_liteapi"] = g.Intn(2)
	p.P["timeout_ms"] = []int{5000, 20000, 60000}[g.Intn(3)] + 1 + g.Intn(89)
	// never a divisor of the pool's 10 s refresh period: a head update that arrives at the very instant the
	// refresh ticker fires makes Go's select choose between two ready cases with an unseedable coin
	p.P["block_ms"] = []int{400, 1000, 2500, 5000}[g.Intn(4)] + 1 + 2*g.Intn(18)
	p.P["blocks"] = 10 + g.Intn(30)
	if tier == "thorough" {
		p.P["blocks"] = 10 + g.Intn(50)
	}
	p.P["split"] = g.Intn(2)
	if g.Intn(3) == 0 {
		p.P["pct"] = 1 + g.Intn(3)
		p.P["pct_span"] = 100 + g.Intn(5000)
	}
	if g.Intn(3) == 0 {
		p.P["stale_pm"] = []int{200, 600}[g.Intn(2)]
	}
	if g.Intn(5) == 0 {
		// every connection learns its first head late: the first refreshes see heads of 0 everywhere
		p.P["hold_info_ms"] = []int{11000, 16000, 27000}[g.Intn(3)]
	}
	for s := 0; s < ns; s++ {
		p.P[fmt.Sprintf("s%d_rtt_us", s)] = []int{200, 1000, 5000, 20000, 80000}[g.Intn(5)] + 13*s + 4*g.Intn(23)
		p.P[fmt.Sprintf("s%d_lag_ms", s)] = []int{0, 0, 30, p.P["block_ms"] / 2, p.P["block_ms"], p.P["block_ms"], p.P["block_ms"]*2 + 50, p.P["block_ms"] * 3}[g.Intn(8)]
		if g.Intn(4) == 0 { // freeze window, followed by a catch-up burst
			a := g.Intn(p.P["blocks"] * p.P["block_ms"])
			p.Faults = append(p.Faults, run.Fault{Kind: "freeze", Host: s, AtMs: a, A: []int{1, 3, 6, 12}[g.Intn(4)] * p.P["block_ms"]})
		}
	}
	total := p.P["blocks"] * p.P["block_ms"]
	pauseAt := -1
	if g.Intn(5) < 2 {
		p.P["pause_blk"] = 1 + g.Intn(p.P["blocks"])
		p.P["pause_ms"] = []int{8000, 20000, 45000}[g.Intn(3)] + 137 + 2*g.Intn(40)
		pauseAt = p.P["pause_blk"] * p.P["block_ms"]
		total += p.P["pause_ms"]
	}
	// workload
	callers := 1 + g.Intn(5)
	if tier == "thorough" {
		callers = 1 + g.Intn(8)
	}
	p.P["callers"] = callers
	for c := 0; c < callers; c++ {
		n := 1 + g.Intn(5)
		for i := 0; i < n; i++ {
			kind := []string{"wait", "wait", "wait", "best", "mcinfo", "status"}[g.Intn(6)]
			op := run.Op{Kind: kind, Caller: c, AtMs: g.Intn(total + 1)}
			if kind == "wait" {
				op.A = g.Intn(7) - 1                                                                                         // k in -1..5
				op.B = []int{1, p.P["block_ms"] / 2, p.P["block_ms"] * 2, p.P["block_ms"] * 6, 30000}[g.Intn(5)] + g.Intn(7) // timeout ms
				if g.Intn(3) == 0 {
					op.C = 1 + g.Intn(p.P["block_ms"]*4) // cancel the context after C ms
				}
			}
			p.Ops = append(p.Ops, op)
		}
		if pauseAt >= 0 && g.Intn(2) == 0 {
			// a wait that is pending when the last block before the pause arrives
			p.Ops = append(p.Ops, run.Op{Kind: "wait", Caller: c, AtMs: max(0, pauseAt-g.Intn(2*p.P["block_ms"])), A: g.Intn(3) - 1,
				B: []int{p.P["block_ms"] * 3, p.P["pause_ms"] / 2, p.P["pause_ms"] - 1000}[g.Intn(3)] + g.Intn(7)})
		}
	}
	if g.Intn(2) == 0 {
		// a poller: one more caller that waits for the current or the next block with a timeout around the block
		// interval, over and over - every window that a switch of the best connection opens is met by some call
		c := callers
		p.P["callers"] = callers + 1
		period := p.P["block_ms"]*(1+g.Intn(2)) + g.Intn(p.P["block_ms"])
		k := g.Intn(2)
		for i, at := 0, g.Intn(period); i < 40 && at < total; i, at = i+1, at+period {
			to := []int{p.P["block_ms"] / 2, p.P["block_ms"], p.P["block_ms"] * 2}[g.Intn(3)] + g.Intn(7)
			p.Ops = append(p.Ops, run.Op{Kind: "wait", Caller: c, AtMs: at, A: k, B: to})
		}
	}
	if ns > 1 && g.Intn(2) == 0 {
		// the round-trip time of a server changes for good (a route change): best-ping switches between live
		// connections, also to one that is a block behind
		n := 1 + g.Intn(3)
		for i := 0; i < n; i++ {
			p.Faults = append(p.Faults, run.Fault{Kind: "rtt", Host: g.Intn(ns), AtMs: g.Intn(total + 1),
				A: []int{100, 2000, 30000, 150000, 400000}[g.Intn(5)] + g.Intn(50)})
		}
	}
	if g.Intn(3) == 0 {
		p.P["calm"] = 1 // no liveness faults, no stalls: completeness oracle W3 applies
		return p
	}
	nf := g.Intn(4)
	for i := 0; i < nf; i++ {
		k := []string{"close", "reset", "blackhole", "refuse", "nopong", "down", "down", "hsstall"}[g.Intn(8)]
		f := run.Fault{Kind: k, Host: g.Intn(ns), AtMs: g.Intn(total + 1)}
		switch k {
		case "close":
			f.A = g.Intn(3)
		case "refuse", "nopong", "down", "hsstall":
			f.A = []int{2000, 12000, 40000}[g.Intn(3)]
		}
		p.Faults = append(p.Faults, f)
	}
	if g.Intn(2) == 0 {
		n := 1 + g.Intn(3)
		if ns > 1 && g.Intn(3) != 0 {
			// a uniformly slow Run loop: every notification (or refresh) is late by a few milliseconds, so the head
			// updates of several connections pile up in the queue
			p.Stalls = append(p.Stalls, core.Stall{Role: "(*ConnPool).Run", Site: []string{"(*ConnPool).notifySubscribers", "(*ConnPool).notifySubscribers", "(*ConnPool).updateBest"}[g.Intn(3)], Nth: 1 + g.Intn(3), Every: 1, DelayMs: []int{1, 7, 40, 150}[g.Intn(4)]})
		}
		for i := 0; i < n; i++ {
			st := core.Stall{Role: c13roles[g.Intn(len(c13roles))], Site: c13sites[g.Intn(len(c13sites))], Nth: 1 + g.Intn(8), DelayMs: []int{1, p.P["block_ms"], p.P["block_ms"] * 3, p.P["block_ms"] * 8}[g.Intn(4)]}
			switch g.Intn(4) {
			case 0:
				// the window the waiter protocol is most sensitive to: a waiter that stopped listening but has not unsubscribed
				st = core.Stall{Role: "execC13", Site: "(*ConnPool).unsubscribe", Nth: 1 + g.Intn(4), DelayMs: p.P["block_ms"] * (2 + g.Intn(8))}
			case 1:
				// ... and a waiter that is descheduled while it subscribes (check-then-register windows)
				st = core.Stall{Role: "execC13", Site: []string{"(*ConnPool).subscribe", "(*ConnPool).bestConnection", "(*connection).MasterHead"}[g.Intn(3)], Nth: 1 + g.Intn(4), DelayMs: p.P["block_ms"] * (1 + g.Intn(3))}
			}
			p.Stalls = append(p.Stalls, st)
		}
	}
	if g.Intn(4) == 0 {
		// goroutines descheduled right after a critical section, before their next statement: a waiter between
		// subscribe and its select (heads arrive in its one-slot channel while nobody listens), a head stored in the
		// connection but published late (publications of one connection overtake each other), a Run loop between
		// two phases. No lock request opens these windows.
		bm := p.P["block_ms"]
		if g.Intn(2) == 0 {
			p.Stalls = append(p.Stalls, core.Stall{Kind: "unlock", Role: "execC13", Site: "(*ConnPool).subscribe", Nth: 1 + g.Intn(3), Every: 1 + g.Intn(2),
				DelayMs: []int{bm / 3, bm, bm + bm/2, bm * 2}[g.Intn(4)] + g.Intn(9)})
			p.Stalls = append(p.Stalls, core.Stall{Kind: "unlock", Role: []string{"(*connection).Run", "execC13", ""}[g.Intn(3)], Site: "(*connection).SetMasterHead", Nth: 1 + g.Intn(6), Every: 1 + g.Intn(3),
				DelayMs: []int{bm / 2, bm, bm + bm/3, bm * 2}[g.Intn(4)] + g.Intn(9)})
			// ... met by callers that ask the best connection for its head and wait for the next block, over and over
			c := p.P["callers"]
			p.P["callers"] = c + 2
			per := bm/2 + g.Intn(bm)
			for i, at := 0, g.Intn(per); i < 60 && at < total; i, at = i+1, at+per {
				p.Ops = append(p.Ops, run.Op{Kind: "mcinfo", Caller: c, AtMs: at})
			}
			per = bm + g.Intn(bm)
			for i, at := 0, g.Intn(per); i < 40 && at < total; i, at = i+1, at+per {
				p.Ops = append(p.Ops, run.Op{Kind: "wait", Caller: c + 1, AtMs: at, A: g.Intn(2), B: []int{bm / 3, bm / 2, bm}[g.Intn(3)] + g.Intn(7)})
			}
		} else {
			n := 1 + g.Intn(2)
			for i := 0; i < n; i++ {
				p.Stalls = append(p.Stalls, core.Stall{Kind: "unlock", Role: c13roles[g.Intn(len(c13roles))], Site: c13sites[g.Intn(len(c13sites))], Nth: 1 + g.Intn(8),
					DelayMs: []int{1, bm / 2, bm, bm * 3}[g.Intn(4)] + g.Intn(5)})
			}
		}
	}
	return p
}

type c13op struct {
	op       run.Op
	caller   int
	k        int
	started  bool
	done     bool
	start    time.Duration
	end      time.Duration
	err      error
	panicked any
	seqno    uint32 // wait: target; best/mcinfo: returned head
	cancelAt time.Duration
	timeout  time.Duration
	connID   int
	callStep int
	retStep  int
	// W5: the best connection reported a head at or beyond the target at this instant while the call was pending
	reachedAt time.Duration
	reached   bool
	ownHead   uint32        // best: head of the returned client's own connection when the call returned
	absSeq    uint32        // reactive waits: the target itself
	subAt     time.Duration // instant at which subscribe released the pool's write lock (-1: it never took it)
}

// head register history for porcupine
type c13regIn struct {
	write bool
	v     uint32
}

func execC13(t *testing.T, w *core.World, p *run.Plan, r *run.Result) {
	sch := liteSchema()
	ns := p.Get("servers", 1)
	blockMs := p.Get("block_ms", 1000)
	blockIv := time.Duration(blockMs) * time.Millisecond
	nblocks := p.Get("blocks", 20)
	calm := p.Get("calm", 0) == 1
	stalled := len(p.Stalls) > 0
	strategy := pool.Strategy(pool.BestPingStrategy)
	if p.Get("strategy", 0) == 1 {
		strategy = pool.FirstWorkingConnection
	}
	timeout := time.Duration(p.Get("timeout_ms", 20000)) * time.Millisecond
	const head0 = 1000
	servers := make([]*litesrv.Server, ns)
	hosts := make([]*core.Host, ns)
	frozen := make([]bool, ns)
	var cfg []config.LiteServer
	for i := 0; i < ns; i++ {
		s := litesrv.New(w, serverKeyFromSeed(p.Seed, i), sch, i, head0)
		s.MinSeqno = head0 - 50
		rtt := p.Get(fmt.Sprintf("s%d_rtt_us", i), 1000)
		s.Beh = litesrv.Behaviour{PongDelayUs: rtt / 2, StaleInfoPermille: p.Get("stale_pm", 0), HoldInfoAfter: 1, HoldInfoMs: p.Get("hold_info_ms", 0)}
		h := w.Net.AddHost(fmt.Sprintf("sim:%d", i), s)
		s.Host = h
		h.Latency[core.C2S] = core.LatencyModel{BaseUs: rtt / 4}
		h.Latency[core.S2C] = core.LatencyModel{BaseUs: rtt / 4}
		servers[i], hosts[i] = s, h
		w.Providers = append(w.Providers, s.Actions)
		cfg = append(cfg, config.LiteServer{Host: h.Name, Key: base64.StdEncoding.EncodeToString(s.Key.Pub)})
	}
	w.Net.Split = p.Get("split", 0) == 1
	globalHead := uint32(head0)

	var pl *pool.ConnPool
	// ---- head register history (per pooled connection) ----
	type regEvent struct {
		conn  int
		write bool
		v     uint32
		call  int
		ret   int
	}
	var regs []regEvent
	pendingWrites := map[int][]int{} // conn id -> indices of writes not yet applied
	clientConnID := func(cl *liteclient.Client) int {
		if p.Free {
			return -1
		}
		snap := pl.SimSnapshot()
		for i, c := range pl.SimClients() {
			if c == cl && i < len(snap.Conns) {
				return snap.Conns[i].ID
			}
		}
		return -1
	}
	for i, s := range servers {
		i := i
		s.OnHeadReported = func(c *core.Conn, seqno uint32) {
			if p.Free {
				return
			}
			regs = append(regs, regEvent{conn: i, write: true, v: seqno, call: w.Steps, ret: -1})
			pendingWrites[i] = append(pendingWrites[i], len(regs)-1)
		}
	}

	// ---- the pool ----
	var mu sync.Mutex

	var setupErr error
	setupDone := false
	maxConn := p.Get("maxconn", ns)
	w.At(0, "setup", func() {
		go func() {
			w.Tag("setup")
			defer func() {
				if x := recover(); x != nil {
					mu.Lock()
					setupErr, setupDone = fmt.Errorf("panic: %v", x), true
					mu.Unlock()
				}
			}()
			if p.Get("via_liteapi", 0) == 1 {
				opts := []liteapi.Option{liteapi.WithLiteServers(cfg), liteapi.WithMaxConnectionsNumber(maxConn), liteapi.WithWorkersPerConnection(p.Get("workers", 1)), liteapi.WithTimeout(timeout), liteapi.WithPoolStrategy(strategy)}
				if p.Get("async", 0) == 1 {
					opts = append(opts, liteapi.WithAsyncConnectionsInit())
				}
				c, err := liteapi.NewClient(opts...)
				mu.Lock()
				if err == nil {
					pl = c.SimPool()
				}
				setupErr, setupDone = err, true
				mu.Unlock()
				return
			}
			pp := pool.New(strategy)
			ch := pp.InitializeConnections(context.Background(), timeout, maxConn, p.Get("workers", 1), false, cfg)
			var err error
			if p.Get("async", 0) == 0 {
				err = <-ch
			}
			if err == nil {
				go pp.Run(context.Background())
			}
			mu.Lock()
			pl, setupErr, setupDone = pp, err, true
			mu.Unlock()
		}()
	})
	setupHorizon := 40 * time.Second
	for _, st := range p.Stalls {
		setupHorizon += time.Duration(st.DelayMs) * time.Millisecond
	}
	if !w.Run(func() bool { mu.Lock(); defer mu.Unlock(); return setupDone }, 40000, setupHorizon) || setupErr != nil {
		w.Violate("C13.setup", "C13.setup|none", fmt.Sprintf("fault-free pool setup failed: done=%v err=%v", setupDone, setupErr))
		return
	}
	if p.Get("async", 0) == 1 {
		// wait until at least one connection is in the pool (a wait issued before that dereferences a nil best
		// connection: observation outside the listed properties, DESIGN 8.7)
		haveConn := func() bool {
			if p.Free {
				return pl.ConnectionsNumber() > 0
			}
			return pl.SimSnapshot().BestID >= 0
		}
		w.Run(haveConn, w.Steps+40000, w.Now()+setupHorizon)
		if !haveConn() {
			w.Violate("C13.setup", "C13.setup|async", "no connection entered the pool in a fault-free asynchronous setup")
			return
		}
	}
	tReady := w.Now()
	setPCT(w, p)

	var ops []*c13op
	var doOp func(o *c13op)
	callerGids := map[uint64]bool{}
	reactiveN := 0
	// ---- refresh judging ----
	type refresh struct {
		gid    uint64
		before pool.SimSnapshot
		judged bool
		atomic bool
		ended  bool
	}
	var cur *refresh
	judgedN, unjudgedN := 0, 0
	subAt := map[uint64]time.Duration{}
	if !p.Free {
		w.Sched.OnGrant = func(rq *core.LockReq) {
			if rq.Yield {
				// a waiter parked right after subscribe released the lock: its timer starts when it resumes
				if strings.HasSuffix(rq.Site, "(*ConnPool).subscribe") {
					mu.Lock()
					subAt[rq.Gid] = w.Now()
					mu.Unlock()
					w.Probe("waiter-resumed-after-being-parked-between-subscribe-and-select")
				}
				if strings.HasSuffix(rq.Site, "(*connection).SetMasterHead") {
					w.Probe("head-publication-resumed-after-being-parked-behind-the-connection-lock")
				}
				return
			}
			if rq.Write && strings.HasSuffix(rq.Site, "(*ConnPool).updateBest") {
				cur = &refresh{gid: rq.Gid, before: pl.SimSnapshot(), judged: true, atomic: w.Ch.Choose(3) != 0}
			}
		}
		w.Sched.OnUnlock = func(m any, write bool, gid uint64, site string) {
			if cur != nil && write && gid == cur.gid && strings.HasSuffix(site, "(*ConnPool).updateBest") {
				cur.ended = true
			}
			if write && strings.HasSuffix(site, "(*ConnPool).subscribe") {
				mu.Lock()
				subAt[gid] = w.Now()
				mu.Unlock()
			}
		}
		w.OnAction = func(a *core.Action) {
			if cur != nil && !cur.ended && (a.Req == nil || a.Req.Gid != cur.gid) {
				cur.judged = false
			}
		}
		w.Prefer = func(acts []core.Action) int {
			if cur == nil || cur.ended || !cur.atomic || !cur.judged {
				return -1
			}
			for i, a := range acts {
				if a.Req != nil && a.Req.Gid == cur.gid {
					return i
				}
			}
			return -1
		}
	}
	judge := func(rf *refresh) {
		after := pl.SimSnapshot()
		b := rf.before
		var maxHead uint32
		for _, c := range b.Conns {
			if c.HeadSeqno > maxHead {
				maxHead = c.HeadSeqno
			}
		}
		var elig []pool.SimConnSnapshot
		for _, c := range b.Conns {
			if c.IsOK && c.HeadSeqno+1 >= maxHead {
				elig = append(elig, c)
			}
		}
		// grid cell for the evidence
		cell := fmt.Sprintf("n%d|s%d", len(b.Conns), p.Get("strategy", 0))
		rtts := []time.Duration{}
		for _, c := range b.Conns {
			rtts = append(rtts, c.AvgRTT)
		}
		sort.Slice(rtts, func(i, j int) bool { return rtts[i] < rtts[j] })
		for _, c := range b.Conns {
			d := int(maxHead) - int(c.HeadSeqno)
			if d > 3 {
				d = 3
			}
			rank := sort.Search(len(rtts), func(i int) bool { return rtts[i] >= c.AvgRTT })
			cell += fmt.Sprintf("|%v,%d,%d", c.IsOK, d, rank)
			if c.ID == b.BestID {
				cell += "*"
			}
		}
		w.Visit(hash64("grid|" + cell))
		// the bounded grid of the property: per connection (alive?, blocks behind the newest known head: 0, 1, 2+),
		// for best-ping also the order of the round-trip times
		coarse := fmt.Sprintf("s%d", p.Get("strategy", 0))
		for _, c := range b.Conns {
			d := int(maxHead) - int(c.HeadSeqno)
			if d > 2 {
				d = 2
			}
			coarse += fmt.Sprintf("|%v,%d", c.IsOK, d)
			if p.Get("strategy", 0) == 0 {
				rank := 0
				for _, o := range b.Conns {
					if o.AvgRTT < c.AvgRTT || (o.AvgRTT == c.AvgRTT && o.ID < c.ID) {
						rank++
					}
				}
				coarse += fmt.Sprintf(",r%d", rank)
			}
		}
		if n := len(b.Conns); n >= 1 && n <= 4 {
			w.VisitGrid(uint8(n), hash64(coarse))
		}
		desc := func() string {
			s := fmt.Sprintf("strategy=%s before: best=%d", strategy, b.BestID)
			for _, c := range b.Conns {
				s += fmt.Sprintf(" [id=%d ok=%v head=%d rtt=%v]", c.ID, c.IsOK, c.HeadSeqno, c.AvgRTT)
			}
			return s + fmt.Sprintf(" after: best=%d", after.BestID)
		}
		if len(b.Conns) == 0 {
			return
		}
		if len(elig) == 0 {
			w.Probe("refresh-none-eligible")
			if after.BestID != b.BestID {
				w.Violate("C13.select", "C13.select|none-eligible-changed", "no connection is eligible but the best connection changed: "+desc())
			}
			return
		}
		var chosen *pool.SimConnSnapshot
		for i := range elig {
			if elig[i].ID == after.BestID {
				chosen = &elig[i]
			}
		}
		if chosen == nil {
			w.Violate("C13.select", "C13.select|not-eligible", "the connection chosen by the refresh is not alive or more than one block behind: "+desc())
			return
		}
		if strategy == pool.BestPingStrategy {
			minRTT := elig[0].AvgRTT
			for _, c := range elig {
				if c.AvgRTT < minRTT {
					minRTT = c.AvgRTT
				}
			}
			if chosen.AvgRTT != minRTT {
				w.Violate("C13.select", "C13.select|best-ping", "an eligible connection with a lower round-trip time exists: "+desc())
			}
			if len(elig) > 1 {
				w.Probe("refresh-best-ping-choice")
			}
		} else {
			minID := elig[0].ID
			for _, c := range elig {
				if c.ID < minID {
					minID = c.ID
				}
			}
			if chosen.ID != minID {
				w.Violate("C13.select", "C13.select|first-working", "an eligible connection earlier in configuration order exists: "+desc())
			}
			if len(elig) > 1 {
				w.Probe("refresh-first-working-choice")
			}
		}
		if len(elig) < len(b.Conns) {
			w.Probe("refresh-with-ineligible-conn")
		}
		if maxHead == 0 && len(b.Conns) > 1 {
			w.Probe("refresh-with-all-heads-zero")
		}
		if after.BestID != b.BestID {
			w.Probe("best-switched")
			// reactive workload: the refresh moved to a connection that is behind the newest known head - right now
			// somebody waits for that newest head with a timeout just above one block interval (a wake-up the new
			// best connection owes within that interval must not depend on the block after it)
			var nbHead uint32
			for _, c := range after.Conns {
				if c.ID == after.BestID {
					nbHead = c.HeadSeqno
				}
			}
			if nbHead > 0 && nbHead < maxHead && reactiveN < 3 && !p.Free {
				reactiveN++
				w.Probe("reactive-wait-after-switch-to-lagging-connection")
				o := &c13op{op: run.Op{Kind: "wait", Caller: 90 + reactiveN, B: blockMs + blockMs/10 + 3}, caller: 90 + reactiveN, connID: -1, absSeq: maxHead}
				mu.Lock()
				ops = append(ops, o)
				mu.Unlock()
				w.At(0, fmt.Sprintf("reactive wait %d", reactiveN), func() {
					go func() {
						w.Tag(fmt.Sprintf("caller-%02d", o.caller))
						doOp(o)
					}()
				})
			}
			if b.Waiters > 0 {
				w.Probe("best-switched-with-waiter-subscribed")
			}
		}
	}

	lastHeads := map[int]uint32{}
	prevBest, prevBestHead, prevStep := -1, uint32(0), -1
	var bestSwitches []time.Duration // instants (quiescent points) at which the pool's best connection was seen to have changed
	badSince, l4Reported := time.Duration(-1), false
	// W5 tolerates stalls of the waiting goroutines themselves (a descheduled caller still has to be told or to
	// find the head when it subscribes); a stalled Run / connection goroutine legitimately delays notifications
	poolSideStalled := false
	for _, st := range p.Stalls {
		// (a caller parked between storing a head in its connection and publishing it is the publication being late)
		if st.Role != "execC13" || (st.Kind == "unlock" && strings.Contains(st.Site, "SetMasterHead")) {
			poolSideStalled = true
		}
	}
	w.OnQuiescent = func(now time.Duration) {
		if p.Free {
			return
		}
		snap := pl.SimSnapshot()
		if cur != nil && cur.ended {
			if cur.judged {
				judgedN++
				judge(cur)
			} else {
				unjudgedN++
			}
			cur = nil
		}
		st := fmt.Sprintf("b%d|w%d|q%d", snap.BestID, min(snap.Waiters, 4), min(snap.Queued, 10))
		var maxH uint32
		for _, c := range snap.Conns {
			if c.HeadSeqno > maxH {
				maxH = c.HeadSeqno
			}
		}
		for _, c := range snap.Conns {
			st += fmt.Sprintf("|%v,%d", c.IsOK, min(int(maxH-c.HeadSeqno), 3))
			// monotone heads
			if c.HeadSeqno < lastHeads[c.ID] {
				w.Violate("C13.head", "C13.head|backwards", fmt.Sprintf("connection %d head went from %d back to %d", c.ID, lastHeads[c.ID], c.HeadSeqno))
			}
			lastHeads[c.ID] = c.HeadSeqno
			// a write is applied once the connection's head reached it
			pw := pendingWrites[c.ID]
			keep := pw[:0]
			for _, idx := range pw {
				if c.HeadSeqno >= regs[idx].v {
					regs[idx].ret = w.Steps
				} else {
					keep = append(keep, idx)
				}
			}
			pendingWrites[c.ID] = keep
		}
		// W5: between two consecutive quiescent points the best connection stayed the same and its head passed
		// the target of a pending wait: the waiter has to be told (all of that takes no simulated time)
		bestHead := uint32(0)
		for _, c := range snap.Conns {
			if c.ID == snap.BestID {
				bestHead = c.HeadSeqno
			}
		}
		if prevStep >= 0 && snap.BestID >= 0 && snap.BestID == prevBest && bestHead > prevBestHead {
			mu.Lock()
			for _, o := range ops {
				if o.op.Kind == "wait" && o.started && !o.done && !o.reached && o.callStep <= prevStep && prevBestHead < o.seqno && o.seqno <= bestHead {
					o.reached, o.reachedAt = true, now
				}
			}
			mu.Unlock()
		}
		if prevStep >= 0 && snap.BestID != prevBest {
			bestSwitches = append(bestSwitches, now)
		}
		prevBest, prevBestHead, prevStep = snap.BestID, bestHead, w.Steps
		// L4 (bounded liveness of the refresh): the best connection is dead or more than two blocks behind while
		// some other connection is alive and current, continuously: the pool has to move on within 35 simulated
		// seconds (a generous ceiling over the documented refresh period), unless its own goroutines are stalled
		stalledNow := poolSideStalled
		for _, sw := range w.Sched.Windows {
			// ... or a caller is descheduled inside a critical section (subscribe reads the head under the pool's lock)
			if sw.Holding && sw.From <= now && sw.To >= now-time.Millisecond {
				stalledNow = true
				badSince = -1
			}
		}
		if !stalledNow && snap.BestID >= 0 {
			var bestC *pool.SimConnSnapshot
			otherGood := false
			for i, c := range snap.Conns {
				if c.ID == snap.BestID {
					bestC = &snap.Conns[i]
				} else if c.IsOK && c.HeadSeqno+1 >= maxH {
					otherGood = true
				}
			}
			bad := bestC != nil && (!bestC.IsOK || bestC.HeadSeqno+2 < maxH)
			if bad && otherGood {
				if badSince < 0 {
					badSince = now
				} else if now-badSince > 35*time.Second && !l4Reported {
					l4Reported = true
					w.Violate("C13.L4", "C13.L4|best-not-refreshed", fmt.Sprintf("for %v the best connection (id=%d ok=%v head=%d) has been dead or stale while another pooled connection was alive and current (newest head %d); no refresh replaced it", now-badSince, bestC.ID, bestC.IsOK, bestC.HeadSeqno, maxH))
				}
			} else {
				badSince = -1
			}
		}
		if snap.Queued >= 10 {
			w.Probe("notification-channel-full")
		}
		if snap.Waiters > 0 && snap.Queued >= 2 {
			w.Probe("two-updates-queued-while-waiter-subscribed")
		}
		w.Visit(hash64(st))
	}

	// ---- chain: blocks are produced every interval; servers follow with their lag unless frozen ----
	// a pause: after block pause_blk the masterchain produces nothing for pause_ms (longer than most waits):
	// a wake-up that is lost is no longer repaired by the next block one interval later
	pauseBlk, pauseDur := p.Get("pause_blk", 0), time.Duration(p.Get("pause_ms", 0))*time.Millisecond
	blockAt := func(b int) time.Duration {
		t := tReady + time.Duration(b)*blockIv
		if pauseBlk > 0 && b > pauseBlk {
			t += pauseDur
		}
		return t
	}
	blocksBy := func(t time.Duration) int {
		n := 0
		for n < nblocks && blockAt(n+1) <= t {
			n++
		}
		return n
	}
	if pauseBlk > 0 && pauseBlk < nblocks {
		w.Probe("chain-pause")
	}
	for b := 1; b <= nblocks; b++ {
		b := b
		at := blockAt(b)
		w.AtAbs(at, fmt.Sprintf("block %d", head0+b), func() { mu.Lock(); globalHead = uint32(head0 + b); mu.Unlock() })
		for i := 0; i < ns; i++ {
			i := i
			lag := time.Duration(p.Get(fmt.Sprintf("s%d_lag_ms", i), 0)) * time.Millisecond
			w.AtAbs(at+lag+time.Duration(i+1)*time.Microsecond, fmt.Sprintf("srv%d applies %d", i, head0+b), func() {
				if !frozen[i] {
					servers[i].SetHead(uint32(head0 + b))
				}
			})
		}
	}
	chainEnd := blockAt(nblocks) + blockIv
	lastFault := tReady
	hostConns := func(hi int) []*core.Conn {
		var out []*core.Conn
		for _, c := range w.Net.Ordered() {
			if c.Host.Index == hi && c.Alive() {
				out = append(out, c)
			}
		}
		return out
	}
	blackholed := false
	for i, f := range p.Faults {
		f := f
		hi := f.Host % ns
		at := tReady + time.Duration(f.AtMs)*time.Millisecond + time.Duration(i+1)*time.Microsecond
		end := at
		switch f.Kind {
		case "freeze":
			end = at + time.Duration(f.A)*time.Millisecond
			w.AtAbs(at, fmt.Sprintf("srv%d freezes", hi), func() { frozen[hi] = true; w.Net.Fired["server-freeze"]++ })
			w.AtAbs(end, fmt.Sprintf("srv%d catches up", hi), func() {
				frozen[hi] = false
				lag := time.Duration(p.Get(fmt.Sprintf("s%d_lag_ms", hi), 0)) * time.Millisecond
				target := uint32(head0 + blocksBy(w.Now()-lag))
				if target > servers[hi].Head+1 {
					w.Probe("catch-up-burst")
				}
				for s := servers[hi].Head + 1; s <= target; s++ {
					servers[hi].SetHead(s) // one by one: every long-poll for an intermediate block is answered at once
				}
			})
		case "rtt":
			end = at
			w.AtAbs(at, fmt.Sprintf("srv%d pong delay becomes %dus", hi, f.A), func() {
				servers[hi].Beh.PongDelayUs = f.A
				w.Net.Fired["rtt-shift"]++
			})
		case "close":
			w.AtAbs(at, fmt.Sprintf("fault close srv%d", hi), func() {
				for _, c := range hostConns(hi) {
					servers[hi].DropConn(c)
					c.ServerClose(f.A)
				}
			})
		case "reset":
			w.AtAbs(at, fmt.Sprintf("fault reset srv%d", hi), func() {
				for _, c := range hostConns(hi) {
					servers[hi].DropConn(c)
					c.Reset()
				}
			})
		case "blackhole":
			blackholed = true
			end = at + 150*time.Second
			w.AtAbs(at, fmt.Sprintf("fault blackhole srv%d", hi), func() {
				for _, c := range hostConns(hi) {
					c.Blackhole(150 * time.Second)
				}
			})
		case "hsstall":
			// the server hangs: its connections are reset, new ones are accepted at the TCP level but never served
			// (no handshake answer) until it restarts and resets them
			end = at + time.Duration(f.A)*time.Millisecond
			w.AtAbs(at, fmt.Sprintf("fault srv%d accepts but does not answer", hi), func() {
				hosts[hi].AcceptStall = true
				for _, c := range hostConns(hi) {
					servers[hi].DropConn(c)
					c.Reset()
				}
			})
			w.AtAbs(end, fmt.Sprintf("srv%d restarts", hi), func() {
				hosts[hi].AcceptStall = false
				for _, c := range w.Net.Ordered() {
					if c.Host.Index == hi && c.Alive() && c.Stalled() {
						c.Reset()
					}
				}
			})
		case "down":
			// the server goes away for a while: its connections are reset and it cannot be dialled until it is back
			end = at + time.Duration(f.A)*time.Millisecond
			w.AtAbs(at, fmt.Sprintf("fault down srv%d", hi), func() {
				hosts[hi].Refuse = true
				w.Net.Fired["server-down"]++
				for _, c := range hostConns(hi) {
					servers[hi].DropConn(c)
					c.Reset()
				}
			})
			w.AtAbs(end, fmt.Sprintf("srv%d is back", hi), func() { hosts[hi].Refuse = false })
		case "refuse":
			end = at + time.Duration(f.A)*time.Millisecond
			w.AtAbs(at, fmt.Sprintf("fault refuse srv%d", hi), func() { hosts[hi].Refuse = true })
			w.AtAbs(end, fmt.Sprintf("heal refuse srv%d", hi), func() { hosts[hi].Refuse = false })
		case "nopong":
			end = at + time.Duration(f.A)*time.Millisecond
			w.AtAbs(at, fmt.Sprintf("fault nopong srv%d", hi), func() { servers[hi].Beh.NoPong = true; w.Net.Fired["no-pong"]++ })
			w.AtAbs(end, fmt.Sprintf("heal nopong srv%d", hi), func() { servers[hi].Beh.NoPong = false })
		}
		if f.Kind != "freeze" && f.Kind != "rtt" && end > lastFault {
			lastFault = end
		}
	}
	_ = blackholed

	// ---- workload ----
	byCaller := map[int][]*c13op{}
	for _, op := range p.Ops {
		o := &c13op{op: op, caller: op.Caller, k: len(byCaller[op.Caller]), connID: -1}
		ops = append(ops, o)
		byCaller[op.Caller] = append(byCaller[op.Caller], o)
	}
	var callerIDs []int
	for c := range byCaller {
		callerIDs = append(callerIDs, c)
	}
	sort.Ints(callerIDs)
	doOp = func(o *c13op) {
		defer func() {
			if x := recover(); x != nil {
				mu.Lock()
				o.panicked, o.done, o.end = x, true, w.Now()
				mu.Unlock()
			}
		}()
		ctx := context.Background()
		gid := core.Gid()
		mu.Lock()
		callerGids[gid] = true
		delete(subAt, gid)
		o.subAt = -1
		o.started, o.start, o.callStep = true, w.Now(), w.StepNow()
		if o.op.Kind == "wait" {
			o.seqno = uint32(int(globalHead) + o.op.A)
			if o.absSeq > 0 {
				o.seqno = o.absSeq
			}
			// sub-microsecond offsets: every other instant of the simulation is a whole number of microseconds, so the
			// call's own timer never fires at the very instant a notification arrives (Go's select would flip an
			// unseedable coin between the two ready cases)
			o.timeout = time.Duration(o.op.B)*time.Millisecond + 333*time.Nanosecond
		}
		mu.Unlock()
		var err error
		switch o.op.Kind {
		case "wait":
			if o.op.C > 0 {
				var cancel context.CancelFunc
				ctx, cancel = context.WithCancel(ctx)
				o.cancelAt = o.start + time.Duration(o.op.C)*time.Millisecond + 777*time.Nanosecond
				w.AtAbs(o.cancelAt, fmt.Sprintf("cancel caller %d op %d", o.caller, o.k), cancel)
			}
			err = pl.WaitMasterchainSeqno(ctx, o.seqno, o.timeout)
		case "best":
			c2, cancel := context.WithTimeout(ctx, 2*time.Second+555*time.Nanosecond)
			cl, head, e := pl.BestMasterchainClient(c2)
			cancel()
			err = e
			if e == nil {
				o.seqno = head.Seqno
				o.connID = clientConnID(cl)
				if !p.Free && o.connID >= 0 {
					// controlled mode: only this goroutine runs, the lock-free view is consistent
					for _, c := range pl.SimSnapshot().Conns {
						if c.ID == o.connID {
							o.ownHead = c.HeadSeqno
						}
					}
				}
			}
		case "mcinfo":
			c2, cancel := context.WithTimeout(ctx, timeout)
			res, e := pl.BestMasterchainInfoClient().LiteServerGetMasterchainInfo(c2)
			cancel()
			err = e
			o.seqno = res.Last.Seqno
		case "status":
			st := pl.Status()
			if n := pl.ConnectionsNumber(); n != len(st.Connections) {
				err = fmt.Errorf("Status lists %d connections, ConnectionsNumber says %d", len(st.Connections), n)
			}
		}
		mu.Lock()
		o.done, o.end, o.err, o.retStep = true, w.Now(), err, w.StepNow()
		if t, ok := subAt[gid]; ok {
			o.subAt = t
		}
		mu.Unlock()
	}
	for _, c := range callerIDs {
		c := c
		list := byCaller[c]
		sort.SliceStable(list, func(i, j int) bool { return list[i].op.AtMs < list[j].op.AtMs })
		w.At(0, fmt.Sprintf("start caller %d", c), func() {
			go func() {
				w.Tag(fmt.Sprintf("caller-%02d", c))
				for _, o := range list {
					if d := tReady + time.Duration(o.op.AtMs)*time.Millisecond - w.Now(); d > 0 {
						time.Sleep(d)
					}
					doOp(o)
				}
			}()
		})
	}
	allDone := func() bool {
		mu.Lock()
		defer mu.Unlock()
		for _, o := range ops {
			if !o.done {
				return false
			}
		}
		return w.Now() >= chainEnd && w.Now() >= lastFault && w.PendingEvents() == 0
	}
	mainHorizon := chainEnd + 45*time.Second
	if lastFault+time.Second > mainHorizon {
		mainHorizon = lastFault + time.Second
	}
	for _, s := range p.Stalls {
		mainHorizon += time.Duration(s.DelayMs) * time.Millisecond
	}
	w.Run(allDone, 150000, mainHorizon)

	// ---- drain: faults stop, servers healthy and caught up, fair scheduling; then probes (W4) ----
	for i := range servers {
		hosts[i].Refuse = false
		if hosts[i].AcceptStall {
			hosts[i].AcceptStall = false
			for _, c := range w.Net.Ordered() {
				if c.Host.Index == i && c.Alive() && c.Stalled() {
					c.Reset()
				}
			}
		}
		frozen[i] = false
		servers[i].Beh.NoPong = false
		servers[i].Beh.HoldInfoMs = 0
		servers[i].Beh.StaleInfoPermille = 0
		servers[i].SetHead(globalHead)
	}
	w.Sched.DisableStalls()
	w.Fair, w.PCT = true, false
	// a request that was in flight when its connection died only ends with the client's request timeout:
	// the drain has to outlast it before the pool can be expected to be whole again
	drain := 40 * time.Second
	if timeout+15*time.Second > drain {
		drain = timeout + 15*time.Second
	}
	// blocks keep coming during the drain (a pool that only recovers while the chain stands still is not whole)
	drainStart := w.Now()
	lastDrainBlock := drainStart
	for k := 1; time.Duration(k)*blockIv < drain-2*time.Second; k++ {
		k := k
		at := drainStart + time.Duration(k)*blockIv
		lastDrainBlock = at
		w.AtAbs(at, "drain block", func() {
			mu.Lock()
			globalHead++
			gh := globalHead
			mu.Unlock()
			for i := range servers {
				servers[i].SetHead(gh)
			}
		})
	}
	_ = lastDrainBlock
	w.Run(func() bool { return false }, w.Steps+120000, drainStart+drain)
	for i := range servers {
		for _, g := range servers[i].GarbageFromClient {
			w.Violate("C13.wire", "C13.wire|client-sent-garbage", fmt.Sprintf("srv%d's ADNL receiver rejected a frame on a connection whose bytes were not altered in transit: %s", i, g))
			break
		}
	}
	// G: every call has returned: a goroutine of the library that one of the calls started and that is still there long
	// after is a part of that call that never ended (two or more of a kind: a leak per call)
	if !p.Free {
		mu.Lock()
		orphans := core.BubbleOrphans(callerGids)
		mu.Unlock()
		var fns []string
		for fn := range orphans {
			fns = append(fns, fn)
		}
		sort.Strings(fns)
		for _, fn := range fns {
			if orphans[fn] >= 2 {
				w.Violate("C13.G", "C13.G|goroutine-leak|"+fn[strings.LastIndex(fn, "/")+1:], fmt.Sprintf("%d goroutines started by calls that have all returned are still there %v after the last fault: %s", orphans[fn], drain, fn))
			}
		}
	}
	// L3 (bounded liveness of the choice): faults stopped `drain` ago (several refresh periods), every server is
	// healthy and current: the best connection must be alive and not more than two blocks behind
	if !p.Free {
		snap := pl.SimSnapshot()
		var maxH uint32
		anyGood := false
		for _, c := range snap.Conns {
			if c.HeadSeqno > maxH {
				maxH = c.HeadSeqno
			}
		}
		var best *pool.SimConnSnapshot
		for i, c := range snap.Conns {
			if c.IsOK && c.HeadSeqno+1 >= maxH {
				anyGood = true
			}
			if c.ID == snap.BestID {
				best = &snap.Conns[i]
			}
		}
		if anyGood && best != nil && (!best.IsOK || best.HeadSeqno+2 < maxH) {
			w.Violate("C13.L3", "C13.L3|stale-best", fmt.Sprintf("%v after the last fault, with blocks arriving and healthy connections in the pool, the best connection is id=%d ok=%v head=%d (newest head %d)", drain, best.ID, best.IsOK, best.HeadSeqno, maxH))
		}
	}
	var probes []*c13op
	probesDone := false
	w.At(0, "probes", func() {
		go func() {
			w.Tag("prober")
			p1 := &c13op{op: run.Op{Kind: "best"}, caller: 99, k: 0, connID: -1}
			p2 := &c13op{op: run.Op{Kind: "wait", A: 0, B: 1000}, caller: 99, k: 1, connID: -1}
			p3 := &c13op{op: run.Op{Kind: "wait", A: 3, B: 1000}, caller: 99, k: 2, connID: -1}
			mu.Lock()
			probes = append(probes, p1, p2, p3)
			mu.Unlock()
			doOp(p1)
			doOp(p2)
			doOp(p3)
			mu.Lock()
			probesDone = true
			mu.Unlock()
		}()
	})
	w.Run(func() bool { mu.Lock(); defer mu.Unlock(); return probesDone }, w.Steps+30000, w.Now()+10*time.Second)

	// ---- oracles on the recorded operations ----
	mu.Lock()
	defer mu.Unlock()
	allReturned := true
	for _, o := range append(append([]*c13op{}, ops...), probes...) {
		if o.started && !o.done {
			allReturned = false
		}
	}
	if !p.Free && allReturned {
		if n := pl.SimSnapshot().Waiters; n != 0 {
			w.Violate("C13.W4", "C13.W4|waitlist-leak", fmt.Sprintf("%d waiters remain subscribed although every wait has returned", n))
		}
	}
	srvMaxHeadAt := func(at time.Duration) uint32 {
		var m uint32 = head0
		for _, s := range servers {
			for _, e := range s.HeadLog {
				if e.At <= at && e.Seqno > m {
					m = e.Seqno
				}
			}
		}
		return m
	}
	for _, o := range append(append([]*c13op{}, ops...), probes...) {
		name := fmt.Sprintf("caller %d op %d (%s)", o.caller, o.k, o.op.Kind)
		if o.panicked != nil {
			w.Violate("C13.panic", "C13.panic|"+stripNums(fmt.Sprint(o.panicked)), fmt.Sprintf("%s panicked: %v", name, o.panicked))
			continue
		}
		if !o.started {
			continue
		}
		if !o.done {
			// a call that began late is only "blocked" once its own deadline has passed
			limit := o.start + time.Second
			switch o.op.Kind {
			case "wait":
				limit = o.start + o.timeout + time.Second
			case "best":
				limit = o.start + 3*time.Second
			case "mcinfo":
				limit = o.start + timeout + time.Second
			}
			if w.Now() <= limit {
				w.Probe("call-still-within-its-deadline-at-the-end")
				allReturned = false
				continue
			}
			w.Violate("C13.W4", "C13.W4|blocked|"+o.op.Kind, fmt.Sprintf("%s started at %v has not returned at %v (no faults for 40 s, fair schedule); parked lock requests: %s", name, o.start, w.Now(), strings.Join(w.Sched.Held(), "; ")))
			r.Picture = core.BubbleStacks()
			continue
		}
		switch o.op.Kind {
		case "wait":
			deadline := o.start + o.timeout
			if o.cancelAt > 0 && o.cancelAt < deadline {
				deadline = o.cancelAt
			}
			if o.err == nil {
				// W1: never success without the head (heads the servers ever reported are the ground truth)
				if got := srvMaxHeadAt(o.end); got < o.seqno {
					w.Violate("C13.W1", "C13.W1|success-without-head", fmt.Sprintf("%s for seqno %d returned nil at %v, but no server had reported a head beyond %d by then", name, o.seqno, o.end, got))
				}
				w.Probe("wait-success")
			} else {
				// W2: never an early error; without stalls the error comes at the deadline exactly
				if o.end < deadline {
					w.Violate("C13.W2", "C13.W2|early-error", fmt.Sprintf("%s (timeout %v, cancel at %v) returned %q after %v, before its deadline", name, o.timeout, o.cancelAt, o.err, o.end-o.start))
				}
				if o.end > deadline && !stalled {
					w.Violate("C13.W2", "C13.W2|late-error", fmt.Sprintf("%s (timeout %v, cancel at +%v) returned %q after %v; its timeout had elapsed / its context was cancelled at +%v", name, o.timeout, o.cancelAt-o.start, o.err, o.end-o.start, deadline-o.start))
				}
				// W5: the true deadline counts from the instant subscribe returned (the timer starts there); the call
				// must have produced its error exactly at that deadline (not later, which would mean the caller itself
				// was descheduled across it and found both the head and the expiry ready)
				trueDeadline := o.start + o.timeout
				if o.subAt >= 0 {
					trueDeadline = o.subAt + o.timeout
				}
				cancelledBeforeSubscribed := false
				if o.cancelAt > 0 {
					if o.cancelAt < trueDeadline {
						trueDeadline = o.cancelAt
					}
					cancelledBeforeSubscribed = o.subAt >= 0 && o.cancelAt <= o.subAt
				}
				// a stalled Run / connection goroutine legitimately delays the notification: excused iff such a stall
				// was in force during the last millisecond before the deadline (without stalls the way from the stored
				// head to the waiter takes no simulated time; stalls that ended earlier only postponed it to their end)
				stalledAtDeadline := false
				for _, sw := range w.Sched.Windows {
					// (a caller of the masterchain-info client that is parked between storing the head in the connection and
					// publishing it is the publication being late, whoever's goroutine it is)
					latePublication := sw.AfterRelease && strings.Contains(sw.Site, "SetMasterHead")
					if (!strings.Contains(sw.Role, "execC13") || sw.Holding || latePublication) && sw.From < trueDeadline && sw.To > trueDeadline-time.Millisecond {
						stalledAtDeadline = true
					}
				}
				// ... and "the best connection" has to be one connection from its report to the end of the call: a
				// refresh that moves on between the report and its delivery drops the report (it is no longer the
				// best connection's), and the property does not say which of the two the waiter is owed
				switchedAfter := false
				for _, t := range bestSwitches {
					if t >= o.reachedAt && t <= o.end {
						switchedAfter = true
					}
				}
				if switchedAfter && o.reached {
					w.Probe("head-reported-then-best-switched-before-the-call-ended")
				}
				if o.reached && o.reachedAt < trueDeadline-time.Millisecond && o.end <= trueDeadline && !cancelledBeforeSubscribed && !stalledAtDeadline && !switchedAfter {
					w.Violate("C13.W5", "C13.W5|missed-head", fmt.Sprintf("%s for seqno %d: the best connection reported a head at or beyond it at %v (the call was pending since %v, subscribed at %v, deadline %v), yet the call returned %q", name, o.seqno, o.reachedAt, o.start, o.subAt, trueDeadline, o.err))
				}
				if o.cancelAt > 0 && o.cancelAt <= o.start+o.timeout {
					w.Probe("wait-cancelled")
				} else {
					w.Probe("wait-timeout")
				}
				// W3: completeness in the calm phase
				// (a server that sits on masterchain-info requests delays the first head, and every re-synchronisation
				// after a failed block wait, by that much: not calm)
				infoUsable := p.Get("hold_info_ms", 0) == 0
				for _, f := range p.Faults {
					if f.Kind == "freeze" {
						infoUsable = false // a server that stops applying blocks for a while is not calm either
					}
				}
				// The call must see heads flow: from the later of its start and the production of the target block, the
				// chain keeps producing for two intervals + refresh period + lag (a best connection that is switched to
				// with the awaited head already stored says nothing until its next block; during a pause that is long)
				tb := int(o.seqno) - head0
				from := o.start
				if tb >= 1 && tb <= nblocks && blockAt(tb) > from {
					from = blockAt(tb)
				}
				need := 2*blockIv + 20*time.Second + time.Duration(maxLag(p, ns))*time.Millisecond
				flowing := from+need < chainEnd
				if pauseBlk > 0 && pauseBlk < nblocks && from+need > blockAt(pauseBlk) && from < blockAt(pauseBlk+1) {
					flowing = false
				}
				if calm && infoUsable && o.op.A <= 1 && o.caller < 90 && o.cancelAt == 0 && tb <= nblocks && flowing &&
					from+need <= o.start+o.timeout {
					w.Violate("C13.W3", "C13.W3|missed-head", fmt.Sprintf("calm run: %s for seqno %d (best head + %d) with timeout %v returned %q", name, o.seqno, o.op.A, o.timeout, o.err))
				}
			}
		case "best":
			if o.err == nil {
				if got := srvMaxHeadAt(o.end); o.seqno > got {
					w.Violate("C13.head", "C13.head|from-future", fmt.Sprintf("%s returned head %d, no server had reported more than %d", name, o.seqno, got))
				}
				if o.connID >= 0 && o.seqno > o.ownHead {
					// BestMasterchainClient waited for the first head and the best connection changed meanwhile: the head
					// it returns then belongs to the new best connection, not to the client it returns (observation,
					// DESIGN 8; not part of the register history)
					w.Probe("best-client-returned-with-head-of-another-connection")
				} else if o.connID >= 0 {
					regs = append(regs, regEvent{conn: o.connID, write: false, v: o.seqno, call: o.callStep, ret: o.retStep})
				}
			} else if o.caller == 99 {
				w.Violate("C13.W4", "C13.W4|probe-best", fmt.Sprintf("BestMasterchainClient probe failed after the drain: %v", o.err))
			}
		case "mcinfo":
			if o.err == nil && o.seqno > srvMaxHeadAt(o.end) {
				w.Violate("C13.head", "C13.head|from-future", fmt.Sprintf("%s decoded head %d from the future", name, o.seqno))
			}
		case "status":
			if o.err != nil {
				w.Violate("C13.status", "C13.status", o.err.Error())
			}
		}
	}
	// head register: linearizability against a max-register per connection (porcupine)
	if !p.Free && len(regs) > 0 {
		var pops []porcupine.Operation
		// Prune the write history: a write the connection never applied (answer lost, connection dropped) cannot
		// explain any read (a read returns a head the connection stored), and repeated writes of one value to one
		// connection collapse into the earliest one. Without this the history is mostly mutually concurrent writes
		// and the search explodes (porcupine's own timeout is useless here: inside the bubble its timer never fires
		// while its workers spin).
		type wkey struct {
			conn int
			v    uint32
		}
		firstWrite := map[wkey]int{}
		var hist []regEvent
		for _, e := range regs {
			if e.write {
				if e.ret < 0 {
					continue
				}
				k := wkey{e.conn, e.v}
				if j, ok := firstWrite[k]; ok {
					if e.ret < hist[j].ret {
						hist[j].ret = e.ret
					}
					continue
				}
				firstWrite[k] = len(hist)
			}
			hist = append(hist, e)
		}
		// Direct (polynomial) conditions of a max-register first: a read returns a value that was handed to that
		// connection before the read returned (a), not less than any value whose write completed before the read began
		// (b), and reads that do not overlap are monotone (c).
		regBad := ""
		foreignReads := map[regEvent]bool{}
		for _, r1 := range hist {
			if r1.write || regBad != "" {
				continue
			}
			explained := false
			for _, e := range hist {
				if e.conn != r1.conn {
					continue
				}
				if e.write && e.v == r1.v && e.call < r1.ret {
					explained = true
				}
				if e.write && e.v > r1.v && e.ret < r1.call {
					regBad = fmt.Sprintf("read of connection %d returned %d [%d,%d] although head %d had been stored by step %d", r1.conn, r1.v, r1.call, r1.ret, e.v, e.ret)
				}
				if !e.write && e.ret < r1.call && e.v > r1.v {
					regBad = fmt.Sprintf("read of connection %d returned %d [%d,%d] after an earlier read [%d,%d] had returned %d", r1.conn, r1.v, r1.call, r1.ret, e.call, e.ret, e.v)
				}
			}
			if !explained && regBad == "" {
				// BestMasterchainClient that had to wait returns the client of the connection that was best when it
				// was called together with the head a notification carried - after a switch that is another
				// connection's head (observation, section 8; the property does not speak about the pairing). Such a
				// read is recognised by its value having been handed to another connection by then.
				foreign := false
				for _, e := range hist {
					if e.write && e.conn != r1.conn && e.v == r1.v && e.call < r1.ret {
						foreign = true
					}
				}
				if foreign {
					w.Probe("best-client-returned-with-head-of-another-connection")
					foreignReads[r1] = true
				} else {
					regBad = fmt.Sprintf("read of connection %d returned %d [%d,%d]: no server had handed that head to any connection by then", r1.conn, r1.v, r1.call, r1.ret)
				}
			}
		}
		if regBad != "" {
			w.Violate("C13.head", "C13.head|register-not-linearizable", "the heads returned by BestMasterchainClient are not explained by the heads the servers handed to each connection (max-register): "+regBad)
		}
		// porcupine on what is left: only writes whose value some read of that connection returned matter for the
		// search once (b) has been checked directly; the others only multiply the interleavings
		readVals := map[wkey]bool{}
		for _, e := range hist {
			if !e.write {
				readVals[wkey{e.conn, e.v}] = true
			}
		}
		kept := hist[:0:0]
		for _, e := range hist {
			if e.write && !readVals[wkey{e.conn, e.v}] {
				continue
			}
			if !e.write && foreignReads[e] {
				continue
			}
			kept = append(kept, e)
		}
		hist = kept
		for i, e := range hist {
			ret := e.ret
			if ret <= e.call {
				ret = e.call + 1
			}
			pops = append(pops, porcupine.Operation{ClientId: i % 64, Input: struct {
				key   int
				write bool
				v     uint32
			}{e.conn, e.write, e.v}, Call: int64(e.call) * 2, Output: e.v, Return: int64(ret)*2 + 1})
		}
		if len(pops) > 400 {
			w.Probe("porcupine-skipped-history-too-long")
		}
		if len(pops) <= 400 && regBad == "" {
			type in = struct {
				key   int
				write bool
				v     uint32
			}
			model := porcupine.Model{
				Partition: func(history []porcupine.Operation) [][]porcupine.Operation {
					m := map[int][]porcupine.Operation{}
					var keys []int
					for _, o := range history {
						k := o.Input.(in).key
						if _, ok := m[k]; !ok {
							keys = append(keys, k)
						}
						m[k] = append(m[k], o)
					}
					sort.Ints(keys)
					var out [][]porcupine.Operation
					for _, k := range keys {
						out = append(out, m[k])
					}
					return out
				},
				Init: func() interface{} { return uint32(0) },
				Step: func(state, input, output interface{}) (bool, interface{}) {
					st := state.(uint32)
					i := input.(in)
					if i.write {
						if i.v > st {
							return true, i.v
						}
						return true, st
					}
					// a read returns the maximum written so far (0 = nothing yet: BestMasterchainClient then waits, so reads are > 0)
					return output.(uint32) == st, st
				},
				Equal: func(a, b interface{}) bool { return a.(uint32) == b.(uint32) },
			}
			res := porcupine.CheckOperations(model, pops)
			_ = porcupine.Unknown
			w.Probe("porcupine-histories")
			if !res {
				hist := ""
				for _, e := range regs {
					k := "R"
					if e.write {
						k = "W"
					}
					hist += fmt.Sprintf(" %s%d(%d)[%d,%d]", k, e.conn, e.v, e.call, e.ret)
				}
				if len(hist) > 3000 {
					hist = hist[:3000]
				}
				w.Violate("C13.head", "C13.head|register-not-linearizable", fmt.Sprintf("the heads returned by BestMasterchainClient are not explained by the heads the servers handed to each connection (max-register, %d operations):%s", len(pops), hist))
			}
		}
	}
	w.Probe(fmt.Sprintf("refreshes-judged=%d", min(judgedN, 1)))
	if unjudgedN > 0 {
		w.Probe("refresh-not-judged-interleaved")
	}
	r.Probes["refreshes_judged_total"] += judgedN
	r.Probes["refreshes_interleaved_total"] += unjudgedN
	r.Nontrivial = true
}

func maxLag(p *run.Plan, ns int) int {
	m := 0
	for i := 0; i < ns; i++ {
		if v := p.Get(fmt.Sprintf("s%d_lag_ms", i), 0); v > m {
			m = v
		}
	}
	return m
}

func init() {
	run.Register(&run.Engine{ID: "C13", Gen: genC13, Exec: execC13, Meta: run.Meta{
		Technique:   "deterministic simulation with fault injection: real liteapi/pool over real liteclient stacks against 1-4 simulated lite servers with independent chains, round-trip times and liveness; seeded driver owns locks, network, servers, clock; refreshes judged exactly from the pool's own view; porcupine for the per-connection head register; free-running -race mode",
		Rule:        "one run = 1-4 servers (RTT, lag, freeze+catch-up bursts, close/reset/black-hole/refused dials/missing pongs), strategy best-ping or first-working, 1-2 workers per connection, sync or async initialisation, through liteapi.NewClient or the pool API, 10-40 (quick) / 10-60 (thorough) blocks at 0.4-5 s, in 2/5 of runs with one pause of 8-45 s in block production; round-trip times that change for good (1-3 shifts in half of the multi-server runs), servers that go down for 2-40 s (connections reset, dials refused); 1-5 (8) callers with 1-5 ops: WaitMasterchainSeqno(head+k, k=-1..5, timeouts around the block interval, contexts cancelled at drawn instants), BestMasterchainClient, BestMasterchainInfoClient().LiteServerGetMasterchainInfo, Status/ConnectionsNumber; in half of the runs a poller (Wait for head+0/1 with a timeout around the block interval, up to 40 times); 0-3 stalls at (role, lock site) biased to (waiter, unsubscribe), and in 2/9 of the multi-server runs a uniformly slow Run loop (every notification or refresh late by 1-150 ms). A refresh is judged iff the driver granted nothing else between the grant of the pool's write lock to updateBest and its release (forced for 2/3 of refreshes). Non-trivial = every run (several goroutines always interleave); distinct = event-log digest. Abstract states = pool view at quiescent points (best id, waiters, queued updates, per connection alive/head lag) plus the judged selection-grid cells (alive, head-max clipped, RTT rank, current best).",
		Real:        []string{"liteapi.NewClient (option handling, pool wiring)", "pool.ConnPool: InitializeConnections, Run, updateBest, findBestPingConnection, findFirstWorkingConnection, subscribe/unsubscribe/notifySubscribers, WaitMasterchainSeqno, BestMasterchainClient, BestMasterchainInfoClient, Status", "pool.connection: Run (GetMasterchainInfo / WaitMasterchainBlock loop), SetMasterHead", "liteclient.Client / Connection / encryptedConn underneath"},
		Simulated:   []string{"lite servers and their chains (litesrv)", "TCP (simnet)", "clock (testing/synctest)", "randomness (seeded)", "goroutine interleaving at mutex acquisitions (controlled mode)"},
		GridTotals:  map[string]int{"1": 4, "2": 60, "3": 1064, "4": 26000},
		GridRule:    "judged refreshes by pool size n (key): cell = strategy x per connection in configuration order (alive?, blocks behind the newest known head clipped to 0/1/2+; at least one connection holds the newest head) x, for best-ping, the order of the round-trip times: (6^n - 4^n) x (1 + n!) cells. Sampled by the simulation, not enumerated.",
		Assumptions: []string{"selection is judged on the pool's own view at the instant of the refresh (SimSnapshot under tag verif), which is the property as stated", "W1 is checked against the heads the simulated servers ever reported (ground truth), W2 exactly only in stall-free runs", "W3 (completeness) only in calm runs with a timeout far above block interval + refresh period + lag", "the head register is checked directly (a read is explained by an earlier write, not older than a completed write, monotone) and with porcupine on the writes that some read returned, at most 400 operations per run", "W5 excuses a missed head only if a stall of a pool-side goroutine was in force during the last millisecond before the call's deadline", "W3 needs heads to flow: no held masterchain info, no pause of block production within two intervals + 20 s + lag of the later of call start and target block"},
	}})
}
