package core

import (
	"context"
	"fmt"
	"net"
	"os"
	"runtime"
	"sort"
	"strings"
	"sync"
	"sync/atomic"
	"testing"
	"testing/synctest"
	"time"

	"github.com/tonkeeper/tongo/utils/simhook"
)

// Action is something the driver may do at a quiescent point.
type Action struct {
	Label string
	Do    func()
	// Req is set for lock grants.
	Req *LockReq
	// Internal actions (grants, due deliveries) are instantaneous consequences; environment
	// actions are timed events of the plan. Only used for statistics.
	Env bool
}

// Violation is one oracle failure.
type Violation struct {
	Oracle string `json:"oracle"`
	Class  string `json:"class"` // stable class signature (oracle|fault kind|site)
	Detail string `json:"detail"`
	AtUs   int64  `json:"at_us"`
	Step   int    `json:"step"`
}

type timedEvent struct {
	at    time.Duration
	seq   int
	label string
	fn    func()
}

// World is one simulated execution.
type World struct {
	T          *testing.T
	Ch         *Chooser
	Log        *EventLog
	Sched      *Sched
	Net        *Net
	Controlled bool

	start     time.Time
	kick      chan struct{}
	driverGid uint64

	mu     sync.Mutex
	events []*timedEvent
	evSeq  int
	wakes  []time.Duration

	Steps      int
	stepsA     atomic.Int64
	Violations []Violation
	Probes     map[string]int
	States     map[uint64]struct{}
	Grid       map[uint64]struct{} // cells of a bounded grid the property quantifies over (class in the top byte)
	// Providers contribute property-specific enabled actions.
	Providers []func(now time.Duration) []Action
	// OnQuiescent runs at every quiescent point before actions are listed.
	OnQuiescent func(now time.Duration)
	// Prefer, if set, may pick the index of the action to run (used for atomic sections); -1 = no preference.
	Prefer func(acts []Action) int
	// OnAction is told which action is about to run.
	OnAction func(a *Action)
	// PCT switches the picker to priority-based scheduling (PCT style): every actor (goroutine tag or
	// environment source) gets a random priority, the highest-priority enabled action runs, and at
	// PCTChanges random steps the running actor is demoted below everyone else. Produces long runs of one
	// goroutine and starvation of others, which a uniform random walk rarely does.
	PCT        bool
	PCTChanges []int
	pctPrio    map[string]int
	pctLow     int
	// Fair switches the picker to round-robin (drain phase).
	Fair   bool
	fairN  int
	SimEnd time.Duration
}

// NewWorld must be called inside the synctest bubble.
func NewWorld(t *testing.T, seed uint64, trace []int, stalls []Stall, controlled bool) *World {
	w := &World{T: t, Ch: NewChooser(seed, trace), Log: NewEventLog(), Controlled: controlled,
		start: time.Now(), kick: make(chan struct{}, 1), Probes: map[string]int{}, States: map[uint64]struct{}{}, Grid: map[uint64]struct{}{}}
	w.driverGid = Gid()
	w.Sched = newSched(w, stalls)
	w.Net = newNet(w)
	simhook.Install(w, controlled)
	return w
}

// simhook.Scheduler
func (w *World) Lock(m any, write bool)   { w.Sched.Lock(m, write) }
func (w *World) Unlock(m any, write bool) { w.Sched.Unlock(m, write) }
func (w *World) Dial(ctx context.Context, network, host string) (net.Conn, error) {
	return w.Net.Dial(ctx, network, host)
}

func (w *World) Now() time.Duration { return time.Since(w.start) }

// StepNow returns the number of driver steps so far; safe to call from workload goroutines.
func (w *World) StepNow() int { return int(w.stepsA.Load()) }

// StartTime is the (fake) wall-clock instant at which the world was created.
func (w *World) StartTime() time.Time { return w.start }

func (w *World) logf(f string, a ...any) {
	if Gid() == w.driverGid {
		w.Log.Logf("%d %s", w.Now().Microseconds(), fmt.Sprintf(f, a...))
	} else {
		w.Log.Async("%d %s", w.Now().Microseconds(), fmt.Sprintf(f, a...))
	}
}

// Tag names the calling workload goroutine (canonical ordering of simultaneous lock requests).
func (w *World) Tag(name string) { w.Sched.TagGoroutine(name, true) }

// Logf records an event with the simulated time stamp.
func (w *World) Logf(f string, a ...any) { w.logf(f, a...) }

func (w *World) kickDriver() {
	select {
	case w.kick <- struct{}{}:
	default:
	}
}

// Kick wakes the driver if it idles.
func (w *World) Kick() { w.kickDriver() }

func (w *World) wakeAt(t time.Duration) {
	w.mu.Lock()
	w.wakes = append(w.wakes, t)
	w.mu.Unlock()
}

// WakeAt makes the driver look again at simulated instant t.
func (w *World) WakeAt(t time.Duration) { w.wakeAt(t); w.kickDriver() }

// At schedules an environment event d from now. It becomes an enabled action at that instant.
func (w *World) At(d time.Duration, label string, fn func()) {
	w.AtAbs(w.Now()+d, label, fn)
}

func (w *World) AtAbs(at time.Duration, label string, fn func()) {
	w.mu.Lock()
	w.evSeq++
	w.events = append(w.events, &timedEvent{at: at, seq: w.evSeq, label: label, fn: fn})
	sort.SliceStable(w.events, func(i, j int) bool {
		if w.events[i].at != w.events[j].at {
			return w.events[i].at < w.events[j].at
		}
		return w.events[i].seq < w.events[j].seq
	})
	w.mu.Unlock()
	w.kickDriver()
}

// PendingEvents returns the number of environment events not yet executed.
func (w *World) PendingEvents() int {
	w.mu.Lock()
	defer w.mu.Unlock()
	return len(w.events)
}

func (w *World) Probe(name string) { w.mu.Lock(); w.Probes[name]++; w.mu.Unlock() }

// Visit records an abstract state.
func (w *World) Visit(h uint64) { w.mu.Lock(); w.States[h] = struct{}{}; w.mu.Unlock() }

// VisitGrid records a cell of a bounded grid; class (1..255) names the sub-grid.
func (w *World) VisitGrid(class uint8, h uint64) {
	w.mu.Lock()
	w.Grid[h&^(0xff<<56)|uint64(class)<<56] = struct{}{}
	w.mu.Unlock()
}

func (w *World) Violate(oracle, class, detail string) {
	w.mu.Lock()
	if len(w.Violations) >= 8 {
		w.mu.Unlock()
		return
	}
	w.Violations = append(w.Violations, Violation{Oracle: oracle, Class: class, Detail: detail, AtUs: w.Now().Microseconds(), Step: w.Steps})
	w.mu.Unlock()
	w.logf("VIOLATION %s %s", oracle, class)
}

func (w *World) enabled(now time.Duration) []Action {
	var acts []Action
	if w.Controlled {
		for _, r := range w.Sched.Grantable(now) {
			r := r
			mode := "R"
			if r.Write {
				mode = "W"
			}
			if r.Yield {
				mode = "resume-after-release"
			}
			acts = append(acts, Action{Label: "grant " + mode + " " + r.Role + " @" + r.Site, Req: r, Do: func() { w.Sched.Grant(r) }})
		}
	}
	for _, c := range w.Net.ordered() {
		c := c
		c.mu.Lock()
		c.assignLatencies(now, w.Ch)
		d0, d1 := c.deliverable(C2S, now), c.deliverable(S2C, now)
		c.mu.Unlock()
		if d0 {
			acts = append(acts, Action{Label: "net c2s conn=" + c.Name, Do: func() { c.deliver(C2S, w.Ch) }})
		}
		if d1 {
			acts = append(acts, Action{Label: "net s2c conn=" + c.Name, Do: func() { c.deliver(S2C, w.Ch) }})
		}
	}
	w.mu.Lock()
	for _, e := range w.events {
		if e.at > now {
			break
		}
		e := e
		acts = append(acts, Action{Label: "env " + e.label, Env: true, Do: func() {
			w.mu.Lock()
			for i, x := range w.events {
				if x == e {
					w.events = append(w.events[:i], w.events[i+1:]...)
					break
				}
			}
			w.mu.Unlock()
			e.fn()
		}})
	}
	w.mu.Unlock()
	for _, p := range w.Providers {
		acts = append(acts, p(now)...)
	}
	return acts
}

// nextWake returns the earliest instant > now at which the simulator itself has something to do.
func (w *World) nextWake(now time.Duration) (time.Duration, bool) {
	w.mu.Lock()
	defer w.mu.Unlock()
	best := time.Duration(-1)
	for _, e := range w.events {
		if e.at > now && (best < 0 || e.at < best) {
			best = e.at
		}
	}
	keep := w.wakes[:0]
	for _, t := range w.wakes {
		if t > now {
			keep = append(keep, t)
			if best < 0 || t < best {
				best = t
			}
		}
	}
	w.wakes = keep
	return best, best >= 0
}

// Run drives the world until done() holds at a quiescent point, or the step cap / horizon is reached.
// It returns true iff done() held.
func (w *World) Run(done func() bool, maxSteps int, horizon time.Duration) bool {
	for {
		synctest.Wait()
		w.Log.Flush()
		now := w.Now()
		if w.OnQuiescent != nil {
			w.OnQuiescent(now)
		}
		if done != nil && done() {
			return true
		}
		if w.Steps >= maxSteps || now >= horizon {
			return false
		}
		acts := w.enabled(now)
		if len(acts) == 0 {
			next, ok := w.nextWake(now)
			if !ok || next > horizon {
				next = horizon
			}
			t := time.NewTimer(next - now)
			select {
			case <-t.C:
			case <-w.kick:
				t.Stop()
			}
			continue
		}
		k := -1
		if w.Prefer != nil {
			k = w.Prefer(acts)
		}
		if k < 0 {
			if w.Fair {
				k = w.fairN % len(acts)
				w.fairN++
			} else if w.PCT {
				k = w.pickPCT(acts)
			} else {
				k = w.Ch.Choose(len(acts))
			}
		}
		w.Steps++
		w.stepsA.Store(int64(w.Steps))
		if w.OnAction != nil {
			w.OnAction(&acts[k])
		}
		if w.Log.KeepAll {
			// the options of the step (not part of the digest): a divergence is classified by them
			opts := make([]string, len(acts))
			for i, a := range acts {
				opts[i] = a.Label
			}
			w.Log.Flush()
			w.Log.All = append(w.Log.All, "      options: "+strings.Join(opts, " | "))
		}
		w.logf("#%d [%d] %s", w.Steps, len(acts), acts[k].Label)
		if w.Log.verbose {
			for i, a := range acts {
				fmt.Fprintf(os.Stderr, "      (%d) %s\n", i, a.Label)
			}
		}
		acts[k].Do()
	}
}

func actorOf(a *Action) string {
	if a.Req != nil {
		return "g:" + a.Req.GTag
	}
	// environment / network / server actions: one actor per source (label up to the first digit run)
	l := a.Label
	if i := strings.IndexAny(l, "#"); i > 0 {
		l = l[:i]
	}
	return "e:" + l
}

func (w *World) pickPCT(acts []Action) int {
	if w.pctPrio == nil {
		w.pctPrio = map[string]int{}
	}
	best, bestP := 0, -1<<30
	for i := range acts {
		actor := actorOf(&acts[i])
		pr, ok := w.pctPrio[actor]
		if !ok {
			pr = 1000 + w.Ch.Choose(1000000)
			w.pctPrio[actor] = pr
		}
		if pr > bestP {
			best, bestP = i, pr
		}
	}
	for _, cp := range w.PCTChanges {
		if cp == w.Steps {
			w.pctLow--
			w.pctPrio[actorOf(&acts[best])] = w.pctLow
		}
	}
	return best
}

// Shutdown terminates every goroutine of the system under test that reaches a hook, fails all
// connection I/O and advances the clock past the periodic timers.
func (w *World) Shutdown() {
	w.SimEnd = w.Now()
	w.Sched.shutdown = true
	for _, h := range w.Net.Hosts {
		h.Refuse = true
	}
	for round := 0; round < 4; round++ {
		synctest.Wait()
		w.Sched.releaseAll()
		w.Net.shutdownAll()
		synctest.Wait()
		time.Sleep(16 * time.Second)
	}
	synctest.Wait()
	w.Sched.releaseAll()
	// the world stays installed (in shutdown mode) until the next run installs its own: goroutines of this
	// run that are still alive must keep ending up in the shutdown path, never in the real network
}

// BubbleStacks returns the stacks of all goroutines whose stack mentions the repository
// (deadlock reports).
func BubbleStacks() []string {
	buf := make([]byte, 1<<20)
	n := runtime.Stack(buf, true)
	var out []string
	for _, g := range strings.Split(string(buf[:n]), "\n\n") {
		if strings.Contains(g, repoPrefix) {
			lines := strings.Split(g, "\n")
			var keep []string
			for i, l := range lines {
				if i == 0 || (strings.Contains(l, repoPrefix) && !strings.HasPrefix(l, "\t")) {
					keep = append(keep, strings.TrimPrefix(l, repoPrefix))
				}
				if len(keep) > 6 {
					break
				}
			}
			out = append(out, strings.Join(keep, " < "))
		}
	}
	return out
}

// BubbleGoroutines returns the number of goroutines that belong to the calling goroutine's synctest bubble.
func BubbleGoroutines() int {
	var hdr [128]byte
	n := runtime.Stack(hdr[:], false)
	first := string(hdr[:n])
	i := strings.Index(first, "synctest bubble ")
	if i < 0 {
		return -1
	}
	j := i + len("synctest bubble ")
	k := j
	for k < len(first) && first[k] >= '0' && first[k] <= '9' {
		k++
	}
	marker := first[i:k] + "]"
	buf := make([]byte, 4<<20)
	m := runtime.Stack(buf, true)
	return strings.Count(string(buf[:m]), marker)
}

// BubbleGoroutineProfile counts the goroutines of the calling goroutine's bubble by the function they were
// started with (bottom frame of the stack).
func BubbleGoroutineProfile() map[string]int {
	var hdr [128]byte
	n := runtime.Stack(hdr[:], false)
	first := string(hdr[:n])
	i := strings.Index(first, "synctest bubble ")
	if i < 0 {
		return nil
	}
	k := i + len("synctest bubble ")
	for k < len(first) && first[k] >= '0' && first[k] <= '9' {
		k++
	}
	marker := first[i:k] + "]"
	buf := make([]byte, 8<<20)
	m := runtime.Stack(buf, true)
	out := map[string]int{}
	for _, g := range strings.Split(string(buf[:m]), "\n\n") {
		lines := strings.Split(g, "\n")
		if len(lines) == 0 || !strings.Contains(lines[0], marker) {
			continue
		}
		bottom := ""
		for _, l := range lines[1:] {
			if l == "" || l[0] == '\t' || strings.HasPrefix(l, "created by ") {
				continue
			}
			bottom = l
		}
		if j := strings.LastIndex(bottom, "("); j > 0 {
			bottom = bottom[:j]
		}
		out[bottom]++
	}
	return out
}

// BubbleOrphans counts, by start function, the goroutines of the calling goroutine's bubble that were created by one of
// the given goroutines (ids) - e.g. by workload callers whose calls have all returned.
func BubbleOrphans(creators map[uint64]bool) map[string]int {
	var hdr [128]byte
	n := runtime.Stack(hdr[:], false)
	first := string(hdr[:n])
	i := strings.Index(first, "synctest bubble ")
	if i < 0 {
		return nil
	}
	k := i + len("synctest bubble ")
	for k < len(first) && first[k] >= '0' && first[k] <= '9' {
		k++
	}
	marker := first[i:k] + "]"
	buf := make([]byte, 8<<20)
	m := runtime.Stack(buf, true)
	out := map[string]int{}
	for _, g := range strings.Split(string(buf[:m]), "\n\n") {
		lines := strings.Split(g, "\n")
		if len(lines) == 0 || !strings.Contains(lines[0], marker) {
			continue
		}
		bottom, creator := "", uint64(0)
		for _, l := range lines[1:] {
			if l == "" || l[0] == '\t' {
				continue
			}
			if strings.HasPrefix(l, "created by ") {
				if j := strings.LastIndex(l, " in goroutine "); j > 0 {
					fmt.Sscanf(l[j+len(" in goroutine "):], "%d", &creator)
				}
				continue
			}
			bottom = l
		}
		if !creators[creator] || !strings.Contains(bottom, repoPrefix) {
			continue
		}
		if j := strings.LastIndex(bottom, "("); j > 0 {
			bottom = bottom[:j]
		}
		out[bottom]++
	}
	return out
}

// GoroutineLeaks compares two profiles: functions of the repository whose goroutine count grew by at least two.
func GoroutineLeaks(before, after map[string]int) []string {
	var out []string
	for fn, n := range after {
		if strings.Contains(fn, repoPrefix) && n-before[fn] >= 2 {
			out = append(out, fmt.Sprintf("%s: %d -> %d", fn, before[fn], n))
		}
	}
	sort.Strings(out)
	return out
}

// CountGoroutines returns the number of live goroutines whose stack mentions the repository.
func CountGoroutines() int {
	buf := make([]byte, 1<<20)
	n := runtime.Stack(buf, true)
	cnt := 0
	for _, g := range strings.Split(string(buf[:n]), "\n\n") {
		if strings.Contains(g, repoPrefix) {
			cnt++
		}
	}
	return cnt
}
