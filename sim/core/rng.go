// Package core holds the deterministic simulator shared by all claimed properties:
// PRNG and decision traces, the lock scheduler behind utils/simhook, the simulated
// network, the driver loop and the event log.
package core

import (
	"crypto/sha256"
	"encoding/hex"
	"fmt"
	"os"
	"sort"
	"sync"
)

// SplitMix64 is the only PRNG of the framework.
type SplitMix64 struct{ s uint64 }

func NewRng(seed uint64) *SplitMix64 { return &SplitMix64{s: seed} }

func (r *SplitMix64) Next() uint64 {
	r.s += 0x9e3779b97f4a7c15
	z := r.s
	z = (z ^ (z >> 30)) * 0xbf58476d1ce4e5b9
	z = (z ^ (z >> 27)) * 0x94d049bb133111eb
	return z ^ (z >> 31)
}

// Intn returns a value in [0,n). n<=0 yields 0.
func (r *SplitMix64) Intn(n int) int {
	if n <= 1 {
		return 0
	}
	return int(r.Next() % uint64(n))
}

// Range returns a value in [lo,hi].
func (r *SplitMix64) Range(lo, hi int) int {
	if hi <= lo {
		return lo
	}
	return lo + r.Intn(hi-lo+1)
}

func (r *SplitMix64) Bool(pNum, pDen int) bool { return r.Intn(pDen) < pNum }

func (r *SplitMix64) Bytes(n int) []byte {
	b := make([]byte, n)
	for i := 0; i < n; i += 8 {
		v := r.Next()
		for j := 0; j < 8 && i+j < n; j++ {
			b[i+j] = byte(v >> (8 * j))
		}
	}
	return b
}

// Mix derives an independent seed from a seed and a stream label.
func Mix(seed uint64, label uint64) uint64 {
	r := SplitMix64{s: seed ^ (label * 0xd6e8feb86659fd93)}
	r.Next()
	return r.Next()
}

// Chooser is the source of every run-time decision of a simulated run (which enabled
// action goes next, split points, latencies drawn during the run). In record mode it draws
// from a PRNG and appends to Trace; in replay mode it consumes Trace (beyond its end: 0).
type Chooser struct {
	rng    *SplitMix64
	replay bool
	in     []int
	pos    int
	Trace  []int
}

func NewChooser(seed uint64, trace []int) *Chooser {
	c := &Chooser{rng: NewRng(Mix(seed, 0x5c4ed))}
	if trace != nil {
		c.replay = true
		c.in = trace
	}
	return c
}

func (c *Chooser) Choose(n int) int {
	if n <= 0 {
		return 0
	}
	var k int
	if c.replay {
		if c.pos < len(c.in) {
			k = c.in[c.pos] % n
			if k < 0 {
				k = 0
			}
		}
		c.pos++
	} else {
		k = c.rng.Intn(n)
	}
	c.Trace = append(c.Trace, k)
	return k
}

// EventLog keeps a running digest of everything that happened plus a bounded tail.
type EventLog struct {
	h interface {
		Write([]byte) (int, error)
		Sum([]byte) []byte
	}
	tail    []string
	max     int
	n       int
	verbose bool
	KeepAll bool // keep every line (determinism re-checks: the first differing line classifies a divergence)
	All     []string
	amu     sync.Mutex
	async   []string
}

func NewEventLog() *EventLog {
	return &EventLog{h: sha256.New(), max: 300, verbose: os.Getenv("VERIF_VERBOSE") != ""}
}

// Async records a line produced by a goroutine other than the driver. Lines produced between two
// quiescent points are sorted before they enter the digest, because goroutines that wake at the same
// simulated instant run in an order the simulator does not control (and that has no effect).
func (l *EventLog) Async(format string, a ...any) {
	s := fmt.Sprintf(format, a...)
	l.amu.Lock()
	l.async = append(l.async, s)
	l.amu.Unlock()
}

// Flush moves buffered async lines into the log (driver only, at quiescence).
func (l *EventLog) Flush() {
	l.amu.Lock()
	lines := l.async
	l.async = nil
	l.amu.Unlock()
	if len(lines) == 0 {
		return
	}
	sort.Strings(lines)
	for _, s := range lines {
		l.add("  ~ " + s)
	}
}

func (l *EventLog) Logf(format string, a ...any) {
	l.Flush()
	l.add(fmt.Sprintf(format, a...))
}

func (l *EventLog) add(s string) {
	l.n++
	l.h.Write([]byte(s))
	l.h.Write([]byte{'\n'})
	if len(l.tail) >= l.max {
		copy(l.tail, l.tail[1:])
		l.tail = l.tail[:l.max-1]
	}
	l.tail = append(l.tail, s)
	if l.KeepAll {
		l.All = append(l.All, s)
	}
	if l.verbose {
		fmt.Fprintln(os.Stderr, s)
	}
}

func (l *EventLog) Digest() string { return hex.EncodeToString(l.h.Sum(nil))[:24] }
func (l *EventLog) Tail(n int) []string {
	if n > len(l.tail) {
		n = len(l.tail)
	}
	return append([]string{}, l.tail[len(l.tail)-n:]...)
}
func (l *EventLog) Len() int { return l.n }
