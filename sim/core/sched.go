package core

import (
	"runtime"
	"sort"
	"strconv"
	"strings"
	"sync"
	"time"
)

// LockReq is a pending request for a simulator-owned lock.
type LockReq struct {
	M         any
	Write     bool
	Role      string // entry function of the requesting goroutine
	Site      string // function that called Lock (innermost /repo frame)
	Caller    string // its caller
	Gid       uint64
	Seq       int
	NotBefore time.Duration // stalls: not grantable before this simulated instant
	GTag      string        // logical tag of the requesting goroutine
	MTag      string        // logical tag of the mutex
	key       string        // canonical sort key
	seen      bool          // stall matching done
	// Yield: not a lock request at all but a goroutine parked right after it released a lock (a caller descheduled
	// between a critical section and its next statement); M is a fresh token, always free
	Yield bool
	grant chan struct{}
}

type lockState struct {
	tag     string
	writer  bool
	wgid    uint64
	wsite   string
	readers int
	rgids   map[uint64]int
}

// Stall withholds the grant of the Nth lock request matching (Role, Site) for Delay.
type Stall struct {
	Role    string `json:"role"`
	Site    string `json:"site"`
	Nth     int    `json:"nth"`
	DelayMs int    `json:"delay_ms"`
	// Every > 0: from the Nth matching acquisition on, every Every-th one is delayed (a uniformly slow goroutine)
	Every int `json:"every,omitempty"`
	// Kind "" delays the grant of a lock request; "unlock" parks the goroutine right after the Nth matching
	// release (Site is then the function that released): the windows between a critical section and the next
	// statement of the same goroutine - a channel operation, a timer - that no lock request opens
	Kind string `json:"kind,omitempty"`
}

// StallWindow is one delay a stall actually imposed.
type StallWindow struct {
	Role     string
	From, To time.Duration
	// Holding: the stalled goroutine held at least one other lock at that moment (a caller descheduled inside a
	// critical section of the system under test stalls the system, not just itself)
	Holding bool
	// Site of the delayed request; AfterRelease: the goroutine was parked right after releasing there (kind "unlock")
	Site         string
	AfterRelease bool
}

// Sched arbitrates every mutex of the system under test in controlled mode.
type Sched struct {
	w        *World
	mu       sync.Mutex // protects pending/locks against the (single running) goroutine and the driver
	pending  []*LockReq
	locks    map[any]*lockState
	gtags    map[uint64]string
	mtagN    map[string]int
	seq      int
	shutdown bool
	stalls   []Stall
	stallHit []int
	// unlockStalls: the plan has stalls of kind "unlock" (only then a release is a scheduling point at all)
	unlockStalls bool
	// Grants counts grants per "role|site" (reach statistics).
	Grants map[string]int
	// StallsFired counts stalls that actually delayed a request.
	StallsFired int
	// Windows lists them (role of the delayed goroutine, simulated interval).
	Windows []StallWindow
	// OnGrant, if set, is called by the driver right after a grant (C13 refresh detection).
	OnGrant func(r *LockReq)
	// OnUnlock, if set, is called from the unlocking goroutine.
	OnUnlock func(m any, write bool, gid uint64, site string)
}

func newSched(w *World, stalls []Stall) *Sched {
	s := &Sched{w: w, locks: map[any]*lockState{}, gtags: map[uint64]string{}, mtagN: map[string]int{}, stalls: stalls, stallHit: make([]int, len(stalls)), Grants: map[string]int{}}
	for _, st := range stalls {
		if st.Kind == "unlock" {
			s.unlockStalls = true
		}
	}
	return s
}

const repoPrefix = "github.com/tonkeeper/tongo/"

func shortFn(fn string) string {
	fn = strings.TrimPrefix(fn, repoPrefix)
	return fn
}

// whoAmI returns (role, site, caller) of the current goroutine relative to the hook frames.
func whoAmI() (role, site, caller string) {
	var pcs [48]uintptr
	n := runtime.Callers(3, pcs[:])
	frames := runtime.CallersFrames(pcs[:n])
	var names []string
	for {
		f, more := frames.Next()
		if f.Function != "" {
			names = append(names, f.Function)
		}
		if !more {
			break
		}
	}
	// names[0] is innermost. Skip hook / simulator frames for the site.
	i := 0
	for i < len(names) && (strings.Contains(names[i], "utils/simhook.") || strings.HasPrefix(names[i], "verif/sim/core.")) {
		i++
	}
	if i < len(names) {
		site = shortFn(names[i])
	}
	if i+1 < len(names) {
		caller = shortFn(names[i+1])
	}
	// role: outermost frame that is not runtime.goexit / testing / synctest plumbing
	for j := len(names) - 1; j >= 0; j-- {
		nm := names[j]
		if nm == "runtime.goexit" || strings.HasPrefix(nm, "runtime.") || strings.HasPrefix(nm, "testing.") || strings.HasPrefix(nm, "internal/synctest") || strings.HasPrefix(nm, "testing/synctest") {
			continue
		}
		role = shortFn(nm)
		break
	}
	return
}

// Gid returns the id of the calling goroutine.
func Gid() uint64 {
	var buf [64]byte
	n := runtime.Stack(buf[:], false)
	// "goroutine 123 ["
	var id uint64
	for i := len("goroutine "); i < n; i++ {
		c := buf[i]
		if c < '0' || c > '9' {
			break
		}
		id = id*10 + uint64(c-'0')
	}
	return id
}

// Lock implements simhook.Scheduler.
func (s *Sched) Lock(m any, write bool) {
	if s.shutdown {
		runtime.Goexit()
	}
	role, site, caller := whoAmI()
	r := &LockReq{M: m, Write: write, Role: role, Site: site, Caller: caller, Gid: Gid(), grant: make(chan struct{})}
	s.mu.Lock()
	s.seq++
	r.Seq = s.seq
	r.GTag = s.gtags[r.Gid]
	st := s.state(m)
	if st.tag == "" {
		// a mutex is named after its first user: role, site and logical goroutine tag, plus an ordinal
		base := role + "@" + site + "<" + r.GTag + ">"
		s.mtagN[base]++
		st.tag = base + "#" + strconv.Itoa(s.mtagN[base])
	}
	r.MTag = st.tag
	if r.GTag == "" {
		// goroutines of the system under test inherit the identity of the first mutex they use
		r.GTag = "~" + st.tag
		s.gtags[r.Gid] = r.GTag
	}
	mode := "R"
	if write {
		mode = "W"
	}
	r.key = r.MTag + "|" + r.GTag + "|" + role + "|" + site + "|" + caller + "|" + mode
	s.pending = append(s.pending, r)
	s.mu.Unlock()
	s.w.kickDriver()
	<-r.grant
	if s.shutdown {
		runtime.Goexit()
	}
}

// Unlock implements simhook.Scheduler.
func (s *Sched) Unlock(m any, write bool) {
	if s.shutdown {
		return
	}
	gid := Gid()
	s.mu.Lock()
	st := s.locks[m]
	site := ""
	if st != nil {
		if write {
			st.writer = false
			site = st.wsite
			st.wgid = 0
		} else {
			st.readers--
			if st.rgids[gid] > 0 {
				st.rgids[gid]--
			}
		}
	}
	s.mu.Unlock()
	if s.OnUnlock != nil {
		s.OnUnlock(m, write, gid, site)
	}
	s.mu.Lock()
	us := s.unlockStalls
	s.mu.Unlock()
	if us {
		s.yieldAfterUnlock(gid, write)
		return
	}
	s.w.kickDriver()
}

// yieldAfterUnlock parks the calling goroutine as a pending pseudo-request if some "unlock" stall of the plan names
// its role and the releasing function; the driver counts and delays it in canonical order like a lock request.
func (s *Sched) yieldAfterUnlock(gid uint64, write bool) {
	role, site, caller := whoAmIUnlock()
	match := false
	s.mu.Lock()
	for _, st := range s.stalls {
		if st.Kind == "unlock" && strings.Contains(role, st.Role) && strings.Contains(site, st.Site) {
			match = true
		}
	}
	s.mu.Unlock()
	if !match {
		s.w.kickDriver()
		return
	}
	r := &LockReq{M: new(int), Yield: true, Role: role, Site: site, Caller: caller, Gid: gid, grant: make(chan struct{})}
	s.mu.Lock()
	s.seq++
	r.Seq = s.seq
	r.GTag = s.gtags[gid]
	r.MTag = "yield"
	mode := "yR"
	if write {
		mode = "yW"
	}
	r.key = r.MTag + "|" + r.GTag + "|" + role + "|" + site + "|" + caller + "|" + mode
	s.pending = append(s.pending, r)
	s.mu.Unlock()
	s.w.kickDriver()
	<-r.grant
	if s.shutdown {
		runtime.Goexit()
	}
}

// whoAmIUnlock is whoAmI for a release: deferred releases may show runtime frames between the hook and the function.
func whoAmIUnlock() (role, site, caller string) {
	var pcs [48]uintptr
	n := runtime.Callers(4, pcs[:])
	frames := runtime.CallersFrames(pcs[:n])
	var names []string
	for {
		f, more := frames.Next()
		if f.Function != "" {
			names = append(names, f.Function)
		}
		if !more {
			break
		}
	}
	skip := func(nm string) bool {
		return strings.Contains(nm, "utils/simhook.") || strings.HasPrefix(nm, "verif/sim/core.") || strings.HasPrefix(nm, "runtime.")
	}
	i := 0
	for i < len(names) && skip(names[i]) {
		i++
	}
	if i < len(names) {
		site = shortFn(names[i])
	}
	for i++; i < len(names) && skip(names[i]); i++ {
	}
	if i < len(names) {
		caller = shortFn(names[i])
	}
	for j := len(names) - 1; j >= 0; j-- {
		nm := names[j]
		if nm == "runtime.goexit" || strings.HasPrefix(nm, "runtime.") || strings.HasPrefix(nm, "testing.") || strings.HasPrefix(nm, "internal/synctest") || strings.HasPrefix(nm, "testing/synctest") {
			continue
		}
		role = shortFn(nm)
		break
	}
	return
}

func (s *Sched) state(m any) *lockState {
	st := s.locks[m]
	if st == nil {
		st = &lockState{rgids: map[uint64]int{}}
		s.locks[m] = st
	}
	return st
}

func (s *Sched) grantable(r *LockReq, now time.Duration) bool {
	if r.NotBefore > now {
		return false
	}
	if r.Yield {
		return true
	}
	st := s.state(r.M)
	if r.Write {
		return !st.writer && st.readers == 0
	}
	if st.writer {
		return false
	}
	// sync.RWMutex prefers writers: once a goroutine has called Lock, later RLock calls block until that writer is
	// done - also the RLock of a goroutine that already holds the read lock (recursive read locking deadlocks).
	// "Later" is the canonical order of the pending list; a writer that is still stalled has not called Lock yet.
	for _, q := range s.pending {
		if q == r {
			break
		}
		if q.M == r.M && q.Write && q.NotBefore <= now {
			return false
		}
	}
	return true
}

// TagGoroutine gives the calling goroutine a logical name (workload goroutines; dialing goroutines).
func (s *Sched) TagGoroutine(tag string, override bool) {
	gid := Gid()
	s.mu.Lock()
	if _, ok := s.gtags[gid]; !ok || override {
		s.gtags[gid] = tag
	}
	s.mu.Unlock()
}

// DisableStalls ends all injected stalls (drain phase: faults have stopped).
func (s *Sched) DisableStalls() {
	s.mu.Lock()
	s.stalls = nil
	s.stallHit = nil
	s.unlockStalls = false
	for _, r := range s.pending {
		r.NotBefore = 0
	}
	s.mu.Unlock()
}

// TagOf returns the logical tag of a goroutine ("" if it has none yet).
func (s *Sched) TagOf(gid uint64) string {
	s.mu.Lock()
	defer s.mu.Unlock()
	return s.gtags[gid]
}

// normalize puts the pending list in canonical order (independent of the order in which goroutines
// that woke at the same simulated instant happened to run) and applies stall matching to new requests.
func (s *Sched) normalize(now time.Duration) {
	sort.SliceStable(s.pending, func(i, j int) bool {
		a, b := s.pending[i], s.pending[j]
		if a.seen != b.seen {
			return a.seen // older requests first
		}
		if a.key != b.key {
			return a.key < b.key
		}
		return a.Seq < b.Seq
	})
	for _, r := range s.pending {
		if r.seen {
			continue
		}
		r.seen = true
		for i, st := range s.stalls {
			if (st.Kind == "unlock") == r.Yield && strings.Contains(r.Role, st.Role) && strings.Contains(r.Site, st.Site) {
				s.stallHit[i]++
				if s.stallHit[i] == st.Nth || (st.Every > 0 && s.stallHit[i] > st.Nth && (s.stallHit[i]-st.Nth)%st.Every == 0) {
					holding := false
					for _, ls := range s.locks {
						if (ls.writer && ls.wgid == r.Gid) || ls.rgids[r.Gid] > 0 {
							holding = true
						}
					}
					s.Windows = append(s.Windows, StallWindow{Role: r.Role, From: now, To: now + time.Duration(st.DelayMs)*time.Millisecond, Holding: holding, Site: r.Site, AfterRelease: r.Yield})
					r.NotBefore = now + time.Duration(st.DelayMs)*time.Millisecond
					s.StallsFired++
					s.w.wakeAt(r.NotBefore)
				}
			}
		}
	}
}

// Grantable lists pending requests that may be granted now, in canonical order.
func (s *Sched) Grantable(now time.Duration) []*LockReq {
	s.mu.Lock()
	defer s.mu.Unlock()
	s.normalize(now)
	var out []*LockReq
	for _, r := range s.pending {
		if s.grantable(r, now) {
			out = append(out, r)
		}
	}
	return out
}

// Pending returns a copy of the pending list.
func (s *Sched) Pending() []*LockReq {
	s.mu.Lock()
	defer s.mu.Unlock()
	return append([]*LockReq{}, s.pending...)
}

// Grant hands the lock to r (driver only, at quiescence).
func (s *Sched) Grant(r *LockReq) {
	s.mu.Lock()
	for i, p := range s.pending {
		if p == r {
			s.pending = append(s.pending[:i], s.pending[i+1:]...)
			break
		}
	}
	if r.Yield {
		s.Grants[r.Role+"|"+r.Site+"|after-release"]++
	} else {
		st := s.state(r.M)
		if r.Write {
			st.writer = true
			st.wgid = r.Gid
			st.wsite = r.Site
		} else {
			st.readers++
			st.rgids[r.Gid]++
		}
		s.Grants[r.Role+"|"+r.Site]++
	}
	s.mu.Unlock()
	if s.OnGrant != nil {
		s.OnGrant(r) // before the grantee can run
	}
	close(r.grant)
}

// Held describes the locks currently held (for deadlock reports).
func (s *Sched) Held() []string {
	s.mu.Lock()
	defer s.mu.Unlock()
	var out []string
	for _, r := range s.pending {
		if r.Yield {
			out = append(out, r.Role+" parked after releasing at "+r.Site)
			continue
		}
		st := s.state(r.M)
		holder := ""
		if st.writer {
			holder = "held-by-writer@" + st.wsite
		} else if st.readers > 0 {
			holder = "held-by-readers"
		} else {
			holder = "free"
		}
		mode := "R"
		if r.Write {
			mode = "W"
		}
		out = append(out, r.Role+" waits "+mode+" at "+r.Site+" ("+holder+")")
	}
	return out
}

// releaseAll is used at shutdown: every parked requester is released and exits.
func (s *Sched) releaseAll() {
	s.mu.Lock()
	p := s.pending
	s.pending = nil
	s.mu.Unlock()
	for _, r := range p {
		close(r.grant)
	}
}
