package core

import (
	"context"
	"errors"
	"fmt"
	"hash/fnv"
	"io"
	"net"
	"os"
	"runtime"
	"sort"
	"strings"
	"sync"
	"time"
)

// Direction of a byte stream.
const (
	C2S = 0
	S2C = 1
)

var dirName = [2]string{"c2s", "s2c"}

// Segment is a piece of a byte stream in flight.
type Segment struct {
	Data []byte
	Due  time.Duration // -1: latency not yet assigned by the driver
	// CloseAfter: the connection is closed by the network right after this segment was delivered (truncation fault).
	CloseAfter bool
}

// StreamFault alters one frame of a byte stream. A "frame" is one enqueue call of a direction:
// one client Write (the library writes a whole ADNL frame, or the 256-byte handshake, per call)
// or one ServerSend.
type StreamFault struct {
	Dir      int    `json:"dir"`
	Frame    int    `json:"frame"`    // index of the enqueue call in that direction of the connection
	Region   string `json:"region"`   // len | nonce | payload | hash | any
	Permille int    `json:"permille"` // position inside the region
	Kind     string `json:"kind"`     // flip | subst | truncate | dup | drop | insert
	Arg      int    `json:"arg"`      // flip/subst: xor value (non zero); dup/drop/insert: length
	done     bool
}

func (f *StreamFault) resolve(l int) int {
	lo, hi := 0, l
	switch f.Region {
	case "len":
		lo, hi = 0, 4
	case "nonce":
		lo, hi = 4, 36
	case "payload":
		lo, hi = 36, l-32
		if hi <= lo {
			lo, hi = 4, 36
		}
	case "hash":
		lo, hi = l-32, l
	}
	if lo < 0 {
		lo = 0
	}
	if hi > l {
		hi = l
	}
	if hi <= lo {
		return 0
	}
	return lo + (f.Permille*(hi-lo))/1000
}

type half struct {
	inflight []Segment
	readable []byte // s2c only: delivered, not yet read by the client
	eof      bool   // after inflight+readable are drained the reader sees EOF
	err      error  // immediate error for the reader (reset)
	waiter   chan struct{}
	enq      int64 // bytes ever enqueued (pre-fault offsets)
	frames   int   // enqueue calls so far
	deliv    int64 // bytes delivered
}

// Conn is a simulated TCP connection. The client side is used by the system under test
// (net.Conn); the server side is driven by the simulator without goroutines.
type Conn struct {
	ID   int    // arrival order (not canonical; do not log)
	Name string // canonical: h<host index>.<per-host dial ordinal>
	Ord  int    // ordinal among the dials of the same logical goroutine to this host
	key  string // canonical sort key within the host
	Host *Host
	net  *Net
	mu   sync.Mutex
	dir  [2]half

	localClosed   bool
	peerClosed    bool // server closed or reset: writes fail after writeGrace more calls
	writeGrace    int
	blackhole     bool
	srvReading    bool // false: the server does not consume c2s bytes
	bufLimit      int  // 0 = unbounded; else max bytes in c2s inflight
	acceptStalled bool
	wrWaiter      chan struct{}
	rdDeadline    time.Time
	wrDeadline    time.Time
	faults        []*StreamFault
	// Writes counts client Write calls; WriteStart[i] is the stream offset where write i began.
	WriteStart []int64
	// WriteBlocked lists the simulated intervals during which a client Write was blocked on a full
	// socket buffer (end < 0: still blocked).
	WriteBlocked [][2]time.Duration
	// RecordWire makes the connection keep the bytes actually delivered per direction (after faults).
	RecordWire bool
	Wire       [2][]byte
	// ServerData is per-connection state owned by the server implementation.
	ServerData any
	// ClosedByClient is set when the client called Close.
	ClosedByClient bool
	DialedAt       time.Duration
}

// Server is the simulated peer behind a host.
type Server interface {
	OnAccept(c *Conn)
	OnBytes(c *Conn, b []byte)
	OnClientClose(c *Conn)
}

// Host is one simulated lite server endpoint.
type Host struct {
	Name        string
	Index       int
	Srv         Server
	Refuse      bool          // dials fail with "connection refused"
	DialDelay   time.Duration // dials take this long
	AcceptStall bool          // dials succeed but the server never reads nor answers
	BufLimit    int           // socket buffer model for new connections (0 = unbounded)
	Latency     [2]LatencyModel
	Dials       int
	accepted    int
	byTag       map[string]int
}

// LatencyModel: base + uniform jitter, in microseconds.
type LatencyModel struct {
	BaseUs   int
	JitterUs int
}

// Net owns all simulated connections.
type Net struct {
	w     *World
	mu    sync.Mutex
	Hosts []*Host
	Conns []*Conn
	Split bool // deliveries may split / coalesce segments
	// Fired counts fault kinds that actually happened.
	Fired map[string]int
}

func newNet(w *World) *Net { return &Net{w: w, Fired: map[string]int{}} }

func (n *Net) fired(kind string) {
	n.mu.Lock()
	n.Fired[kind]++
	n.mu.Unlock()
}

func (n *Net) AddHost(name string, srv Server) *Host {
	h := &Host{Name: name, Index: len(n.Hosts), Srv: srv}
	n.Hosts = append(n.Hosts, h)
	return h
}

// ordered returns the connections in canonical order (host index, per-host ordinal).
func (n *Net) ordered() []*Conn {
	n.mu.Lock()
	conns := append([]*Conn{}, n.Conns...)
	n.mu.Unlock()
	sort.SliceStable(conns, func(i, j int) bool {
		if conns[i].Host.Index != conns[j].Host.Index {
			return conns[i].Host.Index < conns[j].Host.Index
		}
		return conns[i].key < conns[j].key
	})
	return conns
}

// Ordered returns the connections in canonical order.
func (n *Net) Ordered() []*Conn { return n.ordered() }

func (n *Net) host(name string) *Host {
	for _, h := range n.Hosts {
		if h.Name == name {
			return h
		}
	}
	return nil
}

type netErr struct {
	msg     string
	timeout bool
}

func (e *netErr) Error() string   { return e.msg }
func (e *netErr) Timeout() bool   { return e.timeout }
func (e *netErr) Temporary() bool { return e.timeout }

var (
	errRefused = &netErr{msg: "dial tcp: connect: connection refused"}
	errReset   = &netErr{msg: "read: connection reset by peer"}
	errPipe    = &netErr{msg: "write: broken pipe"}
)

// Dial is the only way the system under test gets a connection.
func (n *Net) Dial(ctx context.Context, network, host string) (net.Conn, error) {
	w := n.w
	if w.Sched.shutdown {
		runtime.Goexit()
	}
	w.Sched.TagGoroutine("dial:"+host, false)
	h := n.host(host)
	if h == nil {
		return nil, &netErr{msg: "dial tcp: lookup " + host + ": no such host"}
	}
	n.mu.Lock()
	h.Dials++
	delay := h.DialDelay
	n.mu.Unlock()
	if delay > 0 {
		n.fired("dial-delay")
		t := time.NewTimer(delay)
		select {
		case <-t.C:
		case <-ctx.Done():
			t.Stop()
			return nil, ctx.Err()
		}
		if w.Sched.shutdown {
			runtime.Goexit()
		}
	}
	if err := ctx.Err(); err != nil {
		return nil, err
	}
	n.mu.Lock()
	if h.Refuse {
		n.mu.Unlock()
		n.fired("dial-refuse")
		w.logf("dial %s refused", host)
		return nil, errRefused
	}
	c := &Conn{ID: len(n.Conns), Host: h, net: n, srvReading: !h.AcceptStall, acceptStalled: h.AcceptStall, bufLimit: h.BufLimit, DialedAt: w.Now()}
	// canonical identity: host, logical identity of the dialing goroutine, ordinal among its dials
	// (two connections re-dialed at the same simulated instant must not swap names between runs)
	gtag := w.Sched.TagOf(Gid())
	if h.byTag == nil {
		h.byTag = map[string]int{}
	}
	c.Ord = h.byTag[gtag]
	h.byTag[gtag]++
	h.accepted++
	c.key = fmt.Sprintf("%s|%06d", gtag, c.Ord)
	c.Name = fmt.Sprintf("h%d.%s.%d", h.Index, shortTag(gtag), c.Ord)
	n.Conns = append(n.Conns, c)
	stall := h.AcceptStall
	n.mu.Unlock()
	if stall {
		n.fired("accept-then-stall")
	}
	w.logf("dial %s -> conn %s", host, c.Name)
	h.Srv.OnAccept(c)
	w.kickDriver()
	return c, nil
}

func (c *Conn) wake(h *half) {
	if h.waiter != nil {
		close(h.waiter)
		h.waiter = nil
	}
}

func (c *Conn) wakeWriter() {
	if c.wrWaiter != nil {
		close(c.wrWaiter)
		c.wrWaiter = nil
	}
}

func (c *Conn) Read(b []byte) (int, error) {
	if len(b) == 0 {
		return 0, nil
	}
	h := &c.dir[S2C]
	for {
		c.mu.Lock()
		if c.localClosed {
			c.mu.Unlock()
			return 0, net.ErrClosed
		}
		if h.err != nil {
			err := h.err
			c.mu.Unlock()
			return 0, err
		}
		if len(h.readable) > 0 {
			n := copy(b, h.readable)
			h.readable = h.readable[n:]
			c.mu.Unlock()
			return n, nil
		}
		if h.eof && len(h.inflight) == 0 {
			c.mu.Unlock()
			return 0, io.EOF
		}
		dl := c.rdDeadline
		ch := make(chan struct{})
		h.waiter = ch
		c.mu.Unlock()
		if dl.IsZero() {
			<-ch
		} else {
			d := time.Until(dl)
			if d <= 0 {
				return 0, os.ErrDeadlineExceeded
			}
			t := time.NewTimer(d)
			select {
			case <-ch:
				t.Stop()
			case <-t.C:
				return 0, os.ErrDeadlineExceeded
			}
		}
		if c.net.w.Sched.shutdown {
			return 0, net.ErrClosed
		}
	}
}

func (c *Conn) inflightBytes(d int) int {
	t := 0
	for _, s := range c.dir[d].inflight {
		t += len(s.Data)
	}
	return t
}

func (c *Conn) Write(b []byte) (int, error) {
	w := c.net.w
	for {
		c.mu.Lock()
		if c.localClosed {
			c.closeBlockedLocked(w.Now())
			c.mu.Unlock()
			return 0, net.ErrClosed
		}
		if c.peerClosed {
			c.closeBlockedLocked(w.Now())
			if c.writeGrace <= 0 {
				c.mu.Unlock()
				return 0, errPipe
			}
			c.writeGrace--
			c.mu.Unlock()
			return len(b), nil // swallowed by a dead peer
		}
		if c.bufLimit > 0 && c.inflightBytes(C2S) > 0 && c.inflightBytes(C2S)+len(b) > c.bufLimit {
			// kernel socket buffer full: block like a real socket whose peer does not read
			dl := c.wrDeadline
			ch := make(chan struct{})
			c.wrWaiter = ch
			if n := len(c.WriteBlocked); n == 0 || c.WriteBlocked[n-1][1] >= 0 {
				c.WriteBlocked = append(c.WriteBlocked, [2]time.Duration{w.Now(), -1})
			}
			c.mu.Unlock()
			c.net.fired("write-blocked")
			if dl.IsZero() {
				<-ch
			} else {
				d := time.Until(dl)
				if d <= 0 {
					return 0, os.ErrDeadlineExceeded
				}
				t := time.NewTimer(d)
				select {
				case <-ch:
					t.Stop()
				case <-t.C:
					return 0, os.ErrDeadlineExceeded
				}
			}
			if w.Sched.shutdown {
				return 0, net.ErrClosed
			}
			continue
		}
		h := &c.dir[C2S]
		c.closeBlockedLocked(w.Now())
		c.WriteStart = append(c.WriteStart, h.enq)
		c.enqueueLocked(C2S, b)
		c.mu.Unlock()
		w.kickDriver()
		return len(b), nil
	}
}

// enqueueLocked appends data to a direction, applying stream faults that fall inside it.
func (c *Conn) enqueueLocked(d int, b []byte) {
	h := &c.dir[d]
	data := append([]byte{}, b...)
	start := h.enq
	h.enq += int64(len(b))
	seg := Segment{Due: -1}
	frame := h.frames
	h.frames++
	_ = start
	for _, f := range c.faults {
		if f.done || f.Dir != d || f.Frame != frame || len(data) == 0 {
			continue
		}
		f.done = true
		rel := f.resolve(len(data))
		if rel >= len(data) {
			rel = len(data) - 1
		}
		switch f.Kind {
		case "flip":
			data[rel] ^= byte(f.Arg)
		case "subst":
			data[rel] ^= byte(f.Arg)
		case "truncate":
			data = data[:rel]
			seg.CloseAfter = true
		case "dup":
			// the duplicated bytes stay strictly inside the frame, so that this frame (not the next) is the altered one
			if rel > len(data)-2 {
				rel = len(data) - 2
			}
			if rel < 0 {
				data[0] ^= 0x01
				break
			}
			n := f.Arg
			if rel+n > len(data)-1 {
				n = len(data) - 1 - rel
			}
			if n < 1 {
				n = 1
			}
			dup := append([]byte{}, data[rel:rel+n]...)
			data = append(data[:rel+n:rel+n], append(dup, data[rel+n:]...)...)
		case "drop":
			n := f.Arg
			if rel+n > len(data) {
				n = len(data) - rel
			}
			data = append(data[:rel], data[rel+n:]...)
		case "insert":
			junk := make([]byte, f.Arg)
			for i := range junk {
				junk[i] = byte(0xA5 ^ i)
			}
			data = append(data[:rel], append(junk, data[rel:]...)...)
		}
		c.net.fired("stream-" + f.Kind)
		c.net.w.logf("fault %s conn=%s dir=%s frame=%d rel=%d", f.Kind, c.Name, dirName[d], frame, rel)
	}
	seg.Data = data
	h.inflight = append(h.inflight, seg)
}

// AddStreamFault registers a fault for a frame that has not been enqueued yet.
func (c *Conn) AddStreamFault(f StreamFault) {
	c.mu.Lock()
	ff := f
	c.faults = append(c.faults, &ff)
	c.mu.Unlock()
}

// FaultsFired returns how many registered stream faults were applied.
// FaultsFiredDir counts the stream faults of one direction that have fired on this connection.
func (c *Conn) FaultsFiredDir(dir int) int {
	c.mu.Lock()
	defer c.mu.Unlock()
	n := 0
	for _, f := range c.faults {
		if f.done && f.Dir == dir {
			n++
		}
	}
	return n
}

func (c *Conn) FaultsFired() int {
	c.mu.Lock()
	defer c.mu.Unlock()
	n := 0
	for _, f := range c.faults {
		if f.done {
			n++
		}
	}
	return n
}

// Frames returns the number of frames enqueued so far in a direction.
func (c *Conn) Frames(d int) int {
	c.mu.Lock()
	defer c.mu.Unlock()
	return c.dir[d].frames
}

// ServerSend queues bytes from the server to the client.
func (c *Conn) ServerSend(b []byte) {
	c.mu.Lock()
	if c.localClosed || c.dir[S2C].eof || c.dir[S2C].err != nil {
		c.mu.Unlock()
		return
	}
	c.enqueueLocked(S2C, b)
	c.mu.Unlock()
	c.net.w.kickDriver()
}

func (c *Conn) Close() error {
	c.mu.Lock()
	if c.localClosed {
		c.mu.Unlock()
		return net.ErrClosed
	}
	c.localClosed = true
	c.ClosedByClient = true
	c.wake(&c.dir[S2C])
	c.wakeWriter()
	c.mu.Unlock()
	c.net.w.logf("client closes conn %s", c.Name)
	c.Host.Srv.OnClientClose(c)
	c.net.w.kickDriver()
	return nil
}

type simAddr string

func (a simAddr) Network() string { return "sim" }
func (a simAddr) String() string  { return string(a) }

func (c *Conn) LocalAddr() net.Addr  { return simAddr("client:" + c.Name) }
func (c *Conn) RemoteAddr() net.Addr { return simAddr(c.Host.Name) }
func (c *Conn) SetDeadline(t time.Time) error {
	c.mu.Lock()
	c.rdDeadline, c.wrDeadline = t, t
	c.wake(&c.dir[S2C])
	c.wakeWriter()
	c.mu.Unlock()
	return nil
}
func (c *Conn) SetReadDeadline(t time.Time) error {
	c.mu.Lock()
	c.rdDeadline = t
	c.wake(&c.dir[S2C])
	c.mu.Unlock()
	return nil
}
func (c *Conn) SetWriteDeadline(t time.Time) error {
	c.mu.Lock()
	c.wrDeadline = t
	c.wakeWriter()
	c.mu.Unlock()
	return nil
}

// ---- server / network side operations (driver only) ----

// Alive tells whether the connection can still carry data in some direction.
func (c *Conn) Alive() bool {
	c.mu.Lock()
	defer c.mu.Unlock()
	return !c.localClosed && !c.peerClosed
}

// ServerClose models an orderly close by the server: data already in flight towards the client
// is delivered, then the reader sees EOF; the client's next `grace` writes vanish, later ones fail.
func (c *Conn) ServerClose(grace int) {
	c.mu.Lock()
	if c.localClosed || c.peerClosed {
		c.mu.Unlock()
		return
	}
	c.peerClosed = true
	c.writeGrace = grace
	c.dir[S2C].eof = true
	c.dir[C2S].inflight = nil
	if len(c.dir[S2C].inflight) == 0 {
		c.wake(&c.dir[S2C])
	}
	c.wakeWriter()
	c.mu.Unlock()
	c.net.fired("close")
	c.net.w.logf("server closes conn %s grace=%d", c.Name, grace)
}

// Reset models an RST: both directions fail at once.
func (c *Conn) Reset() {
	c.mu.Lock()
	if c.localClosed || (c.peerClosed && c.dir[S2C].err != nil) {
		c.mu.Unlock()
		return
	}
	c.peerClosed = true
	c.writeGrace = 0
	c.dir[S2C].err = errReset
	c.dir[S2C].inflight = nil
	c.dir[S2C].readable = nil
	c.dir[C2S].inflight = nil
	c.wake(&c.dir[S2C])
	c.wakeWriter()
	c.mu.Unlock()
	c.net.fired("reset")
	c.net.w.logf("reset conn %s", c.Name)
}

// Blackhole stops all delivery; after the keep-alive bound the connection is reset.
func (c *Conn) Blackhole(keepAlive time.Duration) {
	c.mu.Lock()
	if c.localClosed || c.peerClosed || c.blackhole {
		c.mu.Unlock()
		return
	}
	c.blackhole = true
	c.mu.Unlock()
	c.net.fired("black-hole")
	c.net.w.logf("blackhole conn %s", c.Name)
	c.net.w.At(keepAlive, "keepalive-expiry conn="+c.Name, func() { c.Reset() })
}

func (c *Conn) closeBlockedLocked(now time.Duration) {
	if n := len(c.WriteBlocked); n > 0 && c.WriteBlocked[n-1][1] < 0 {
		c.WriteBlocked[n-1][1] = now
	}
}

// WriteBlockedDuring tells whether a client Write was blocked at some instant of [from, to].
func (c *Conn) WriteBlockedDuring(from, to time.Duration) bool {
	c.mu.Lock()
	defer c.mu.Unlock()
	for _, iv := range c.WriteBlocked {
		end := iv[1]
		if end < 0 {
			end = 1<<62 - 1
		}
		if iv[0] <= to && end >= from {
			return true
		}
	}
	return false
}

// Stalled reports whether the server never read from this connection (accept-then-stall).
func (c *Conn) Stalled() bool {
	c.mu.Lock()
	defer c.mu.Unlock()
	return c.acceptStalled
}

// SetBufLimit sets the socket-buffer model of the client->server direction (0 = unbounded).
func (c *Conn) SetBufLimit(n int) {
	c.mu.Lock()
	c.bufLimit = n
	c.mu.Unlock()
}

// SetServerReading switches the server's consumption of client bytes on or off (write-stall model).
func (c *Conn) SetServerReading(on bool) {
	c.mu.Lock()
	c.srvReading = on
	c.mu.Unlock()
	if !on {
		c.net.fired("server-stops-reading")
	}
	c.net.w.kickDriver()
}

// deliverable reports whether direction d has a segment that may be delivered now.
func (c *Conn) deliverable(d int, now time.Duration) bool {
	if c.localClosed || c.blackhole {
		return false
	}
	h := &c.dir[d]
	if len(h.inflight) == 0 {
		return false
	}
	if d == C2S && (!c.srvReading || c.peerClosed) {
		return false
	}
	return h.inflight[0].Due >= 0 && h.inflight[0].Due <= now
}

// assignLatencies gives every new segment its delivery time. Returns the earliest future due time (or -1).
func (c *Conn) assignLatencies(now time.Duration, ch *Chooser) {
	for d := 0; d < 2; d++ {
		h := &c.dir[d]
		var prev time.Duration
		for i := range h.inflight {
			s := &h.inflight[i]
			if s.Due < 0 {
				lm := c.Host.Latency[d]
				lat := time.Duration(lm.BaseUs) * time.Microsecond
				if lm.JitterUs > 0 {
					lat += time.Duration(ch.Choose(lm.JitterUs+1)) * time.Microsecond
				}
				s.Due = now + lat
				if s.Due < prev { // a byte stream keeps its order
					s.Due = prev
				}
				if s.Due > now {
					c.net.w.wakeAt(s.Due)
				}
			}
			prev = s.Due
		}
	}
}

// deliver moves the head segment (or part of it) of direction d to its reader.
func (c *Conn) deliver(d int, ch *Chooser) {
	w := c.net.w
	c.mu.Lock()
	h := &c.dir[d]
	seg := h.inflight[0]
	n := len(seg.Data)
	if c.net.Split && n > 1 {
		switch ch.Choose(4) {
		case 2:
			n = 1 + ch.Choose(n-1)
		case 3:
			m := n - 1
			if m > 8 {
				m = 8
			}
			n = 1 + ch.Choose(m)
		}
	}
	part := seg.Data[:n]
	closeAfter := false
	if n == len(seg.Data) {
		h.inflight = h.inflight[1:]
		closeAfter = seg.CloseAfter
		// coalescing: segments that are due at the same instant may reach the reader in one piece
		// (what a reader gets from one Read is not aligned with what the sender wrote)
		for c.net.Split && !closeAfter && len(h.inflight) > 0 && h.inflight[0].Due >= 0 && h.inflight[0].Due <= w.Now() && ch.Choose(2) == 1 {
			next := h.inflight[0]
			h.inflight = h.inflight[1:]
			part = append(append([]byte{}, part...), next.Data...)
			n += len(next.Data)
			closeAfter = next.CloseAfter
			c.net.fired("coalesce")
		}
	} else {
		h.inflight[0].Data = seg.Data[n:]
		c.net.fired("split")
	}
	h.deliv += int64(n)
	if c.RecordWire {
		// only what is actually delivered: bytes queued behind a truncation never reach the reader
		c.Wire[d] = append(c.Wire[d], part...)
	}
	w.logf("deliver %s conn=%s n=%d/%d", dirName[d], c.Name, n, len(seg.Data))
	if d == S2C {
		h.readable = append(h.readable, part...)
		if closeAfter {
			h.eof = true
			c.peerClosed = true
			c.writeGrace = 0
			h.inflight = nil
			c.dir[C2S].inflight = nil
			c.wakeWriter()
		}
		c.wake(h)
		c.mu.Unlock()
		return
	}
	c.wakeWriter()
	c.mu.Unlock()
	if len(part) > 0 {
		c.Host.Srv.OnBytes(c, part)
	}
	if closeAfter {
		c.ServerClose(0)
	}
}

// PendingBytes returns in-flight byte counts (c2s, s2c incl. unread).
func (c *Conn) PendingBytes() (int, int) {
	c.mu.Lock()
	defer c.mu.Unlock()
	return c.inflightBytes(C2S), c.inflightBytes(S2C) + len(c.dir[S2C].readable)
}

var ErrSimShutdown = errors.New("simulation shut down")

// shutdownAll fails every blocked read and write (teardown).
func (n *Net) shutdownAll() {
	n.mu.Lock()
	conns := append([]*Conn{}, n.Conns...)
	n.mu.Unlock()
	for _, c := range conns {
		c.mu.Lock()
		c.localClosed = true
		c.wake(&c.dir[S2C])
		c.wakeWriter()
		c.mu.Unlock()
	}
}

func shortTag(tag string) string {
	h := fnv.New32a()
	h.Write([]byte(tag))
	v := h.Sum32()
	// keep a readable hint of the tag
	hint := tag
	if i := strings.LastIndex(hint, "<"); i >= 0 {
		hint = hint[i+1:]
	}
	hint = strings.TrimRight(hint, ">#0123456789")
	hint = strings.TrimPrefix(hint, "~")
	if len(hint) > 8 {
		hint = hint[:8]
	}
	return fmt.Sprintf("%s%04x", hint, v&0xffff)
}
