package adnl

import (
	"crypto/aes"
	"crypto/cipher"
	"crypto/ed25519"
	"crypto/sha256"
	"crypto/sha512"
	"encoding/binary"
	"errors"
	"math/big"

	"golang.org/x/crypto/curve25519"
)

// independent ADNL-over-TCP server side, written from the protocol description.

var p25519, _ = new(big.Int).SetString("7fffffffffffffffffffffffffffffffffffffffffffffffffffffffffffffed", 16)

func edPubToMontgomery(pub []byte) []byte {
	// little-endian y with sign bit in top bit
	le := make([]byte, 32)
	copy(le, pub)
	le[31] &= 0x7f
	be := make([]byte, 32)
	for i := range le {
		be[31-i] = le[i]
	}
	y := new(big.Int).SetBytes(be)
	one := big.NewInt(1)
	num := new(big.Int).Add(one, y)
	den := new(big.Int).Sub(one, y)
	den.Mod(den, p25519)
	den.ModInverse(den, p25519)
	u := num.Mul(num, den)
	u.Mod(u, p25519)
	ub := u.Bytes()
	out := make([]byte, 32)
	for i := range ub {
		out[i] = ub[len(ub)-1-i]
	}
	return out
}

func edSeedToScalar(priv ed25519.PrivateKey) []byte {
	h := sha512.Sum512(priv.Seed())
	s := h[:32]
	s[0] &= 248
	s[31] &= 127
	s[31] |= 64
	return s
}

type ServerKey struct {
	Priv ed25519.PrivateKey
	Pub  ed25519.PublicKey
}

func (k ServerKey) KeyID() []byte {
	h := sha256.New()
	h.Write([]byte{0xc6, 0xb4, 0x13, 0x48})
	h.Write(k.Pub)
	return h.Sum(nil)
}

// Session holds the per-connection cipher streams on the server side.
type Session struct {
	in  cipher.Stream // decrypts client->server
	out cipher.Stream // encrypts server->client
	// key material of the server->client direction, kept to build a reference receiver
	outKey, outIV []byte
}

// ReferenceReceiver returns a framer that decodes the server->client stream from its first byte,
// i.e. what a receiver following the specification extracts from the bytes actually delivered.
func (s *Session) ReferenceReceiver() *Framer {
	blk, _ := aes.NewCipher(s.outKey)
	return &Framer{S: &Session{in: cipher.NewCTR(blk, s.outIV)}}
}

func (k ServerKey) Handshake(req []byte) (*Session, error) {
	if len(req) != 256 {
		return nil, errors.New("handshake must be 256 bytes")
	}
	if string(req[:32]) != string(k.KeyID()) {
		return nil, errors.New("unknown key id")
	}
	clientPub := req[32:64]
	hash := req[64:96]
	enc := append([]byte{}, req[96:256]...)
	shared, err := curve25519.X25519(edSeedToScalar(k.Priv), edPubToMontgomery(clientPub))
	if err != nil {
		return nil, err
	}
	key := append(append([]byte{}, shared[0:16]...), hash[16:32]...)
	iv := append(append([]byte{}, hash[0:4]...), shared[20:32]...)
	blk, _ := aes.NewCipher(key)
	cipher.NewCTR(blk, iv).XORKeyStream(enc, enc)
	sum := sha256.Sum256(enc)
	if string(sum[:]) != string(hash) {
		return nil, errors.New("params hash mismatch")
	}
	// enc = rx_key(32) tx_key(32) rx_nonce(16) tx_nonce(16) padding(64), named from the client's side
	inBlk, _ := aes.NewCipher(enc[32:64])
	outBlk, _ := aes.NewCipher(enc[0:32])
	return &Session{
		in:     cipher.NewCTR(inBlk, enc[80:96]),
		out:    cipher.NewCTR(outBlk, enc[64:80]),
		outKey: append([]byte{}, enc[0:32]...),
		outIV:  append([]byte{}, enc[64:80]...),
	}, nil
}

func (s *Session) Seal(nonce [32]byte, payload []byte) []byte {
	b := make([]byte, 4+32+len(payload)+32)
	binary.LittleEndian.PutUint32(b, uint32(64+len(payload)))
	copy(b[4:], nonce[:])
	copy(b[36:], payload)
	h := sha256.New()
	h.Write(nonce[:])
	h.Write(payload)
	copy(b[36+len(payload):], h.Sum(nil))
	s.out.XORKeyStream(b, b)
	return b
}

// Framer incrementally decrypts and splits the client->server stream.
type Framer struct {
	S   *Session
	buf []byte // decrypted, unconsumed
}

func (f *Framer) Feed(b []byte) (payloads [][]byte, err error) {
	d := make([]byte, len(b))
	f.S.in.XORKeyStream(d, b)
	f.buf = append(f.buf, d...)
	for {
		if len(f.buf) < 4 {
			return
		}
		n := int(binary.LittleEndian.Uint32(f.buf))
		if n < 64 || n > 8<<20 {
			return payloads, errors.New("bad length")
		}
		if len(f.buf) < 4+n {
			return
		}
		fr := f.buf[4 : 4+n]
		h := sha256.Sum256(fr[:n-32])
		if string(h[:]) != string(fr[n-32:]) {
			return payloads, errors.New("bad checksum")
		}
		payloads = append(payloads, append([]byte{}, fr[32:n-32]...))
		f.buf = f.buf[4+n:]
	}
}

// SealRaw builds a frame whose length field is declLen. If body has exactly declLen bytes and
// declLen >= 64, the body is made a well-formed nonce|payload|checksum triple (payload = zeros);
// otherwise the body bytes follow the length field as they are.
func (s *Session) SealRaw(declLen uint32, nonce [32]byte, body []byte) []byte {
	b := make([]byte, 4+len(body))
	binary.LittleEndian.PutUint32(b, declLen)
	if int(declLen) == len(body) && declLen >= 64 {
		copy(b[4:], nonce[:])
		h := sha256.New()
		h.Write(nonce[:])
		h.Write(b[36 : 4+len(body)-32])
		copy(b[4+len(body)-32:], h.Sum(nil))
	} else {
		copy(b[4:], body)
	}
	s.out.XORKeyStream(b, b)
	return b
}
