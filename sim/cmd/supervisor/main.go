// supervisor: builds the worker test binary from /repo's current tree (tag verif), fans plans out to
// worker processes, classifies and minimises violations, writes replay files and evidence.
//
//	supervisor <ID> quick|thorough
//	supervisor <ID> --replay <file>
//	supervisor <ID> selftest
//
// exit 0: property held on everything explored (KNOWN-FINDING lines possible)
// exit 1: "VIOLATION property=<id> replay=<path>" printed
// exit 2: build / harness / watchdog / nondeterminism trouble (never a VIOLATION)
package main

import (
	"bytes"
	"crypto/sha256"
	"encoding/hex"
	"encoding/json"
	"fmt"
	"os"
	"os/exec"
	"path/filepath"
	"regexp"
	"sort"
	"strconv"
	"strings"
	"sync"
	"time"
)

var (
	root   = "/verif"
	work   string
	prop   string
	tier   string
	seed   uint64 = 1
	nwork         = 16
	tStart        = time.Now()
)

type violation struct {
	Oracle string `json:"oracle"`
	Class  string `json:"class"`
	Detail string `json:"detail"`
	AtUs   int64  `json:"at_us"`
	Step   int    `json:"step"`
}

type result struct {
	Property   string         `json:"property"`
	Index      int            `json:"index"`
	Seed       uint64         `json:"seed"`
	Digest     string         `json:"digest"`
	Steps      int            `json:"steps"`
	SimUs      int64          `json:"sim_us"`
	Violations []violation    `json:"violations"`
	Fired      map[string]int `json:"fired"`
	Probes     map[string]int `json:"probes"`
	Trace      []int          `json:"trace"`
	Tail       []string       `json:"tail"`
	Picture    []string       `json:"picture"`
	Plan       map[string]any `json:"plan"`
}

type violationRec struct {
	Plan   map[string]any `json:"plan"`
	Result result         `json:"result"`
	// generation of the worker process that found it (for batch replays)
	GenStart  int  `json:"-"`
	GenStride int  `json:"-"`
	GenFree   bool `json:"-"`
}

type sample struct {
	Plan   map[string]any `json:"plan"`
	Digest string         `json:"digest"`
	Steps  int            `json:"steps"`
	SimUs  int64          `json:"sim_us"`
}

type meta struct {
	Rule        string         `json:"rule"`
	Real        []string       `json:"real"`
	Simulated   []string       `json:"simulated"`
	Assumptions []string       `json:"assumptions"`
	Technique   string         `json:"technique"`
	GridTotals  map[string]int `json:"grid_totals"`
	GridRule    string         `json:"grid_rule"`
}

type summary struct {
	Runs       int            `json:"runs"`
	NextIndex  int            `json:"next_index"`
	Steps      int64          `json:"steps"`
	SimUs      int64          `json:"sim_us"`
	Fired      map[string]int `json:"fired"`
	Probes     map[string]int `json:"probes"`
	Digests    []string       `json:"digests"`
	AllDigests int            `json:"all_digests"`
	States     []uint64       `json:"states"`
	Grid       []uint64       `json:"grid"`
	Nontrivial int            `json:"nontrivial"`
	Violations []violationRec `json:"violations"`
	Samples    []sample       `json:"samples"`
	Nondeterm  []int          `json:"nondeterministic"`
	NondetInfo []string       `json:"nondeterministic_info"`
	SelectTies int            `json:"select_ties"`
	Rechecked  int            `json:"rechecked"`
	WallS      float64        `json:"wall_s"`
	Meta       *meta          `json:"meta"`
}

type knownFinding struct {
	Property    string `json:"property"`
	Class       string `json:"class"`
	Status      string `json:"status"` // known | fixed
	Commit      string `json:"commit,omitempty"`
	Description string `json:"description"`
}

// unmarshal decodes JSON keeping integers exact (plans carry 64-bit seeds).
func unmarshal(b []byte, v any) error {
	d := json.NewDecoder(bytes.NewReader(b))
	d.UseNumber()
	return d.Decode(v)
}

func fatal2(f string, a ...any) {
	fmt.Fprintf(os.Stderr, "HARNESS-TROUBLE: "+f+"\n", a...)
	os.Exit(2)
}

func goEnv() []string {
	env := os.Environ()
	env = append(env, "GOFLAGS=-mod=mod", "GOPROXY=off", "GOSUMDB=off", "GOTOOLCHAIN=local", "CGO_ENABLED=1")
	return env
}

func workerEnv(free bool) []string {
	env := os.Environ()
	env = append(env, "GODEBUG=randseednop=0,asyncpreemptoff=1")
	if free {
		env = append(env, "GORACE=halt_on_error=1 exitcode=66")
	}
	return env
}

func build(race bool) string {
	out := filepath.Join(work, "worker.test")
	args := []string{"test", "-c", "-tags", "verif", "-o", out, "./worker"}
	if race {
		out = filepath.Join(work, "worker.race.test")
		args = []string{"test", "-c", "-race", "-tags", "verif", "-o", out, "./worker"}
	}
	cmd := exec.Command("go1.26.8", args...)
	cmd.Dir = filepath.Join(root, "sim")
	cmd.Env = goEnv()
	b, err := cmd.CombinedOutput()
	if err != nil {
		fmt.Fprintln(os.Stderr, string(b))
		fatal2("building the worker from /repo's tree with -tags verif failed: %v", err)
	}
	return out
}

// runPlan executes one plan file in a fresh worker process.
func runPlan(bin string, planFile string, repeat int, free bool, timeout time.Duration) (*result, string, error) {
	out := planFile + ".result.json"
	os.Remove(out)
	args := []string{"-test.run", "^TestWorker$", "-test.timeout", "0", "-verif.mode=plan", "-verif.planfile=" + planFile, "-verif.out=" + out, "-verif.repeat=" + strconv.Itoa(repeat)}
	if free {
		args = append(args, "-verif.free")
	}
	cmd := exec.Command(bin, args...)
	cmd.Env = workerEnv(free)
	cmd.Dir = work
	var buf bytes.Buffer
	cmd.Stdout = &buf
	cmd.Stderr = &buf
	if err := cmd.Start(); err != nil {
		return nil, "", err
	}
	done := make(chan error, 1)
	go func() { done <- cmd.Wait() }()
	var err error
	select {
	case err = <-done:
	case <-time.After(timeout):
		cmd.Process.Kill()
		<-done
		return nil, tailStr(buf.String(), 60), fmt.Errorf("watchdog")
	}
	b, rerr := os.ReadFile(out)
	if rerr != nil {
		return nil, tailStr(buf.String(), 80), fmt.Errorf("crash: %v", err)
	}
	var r result
	if jerr := unmarshal(b, &r); jerr != nil {
		return nil, tailStr(buf.String(), 80), jerr
	}
	return &r, tailStr(buf.String(), 40), nil
}

func tailStr(s string, n int) string {
	lines := strings.Split(s, "\n")
	if len(lines) > n {
		lines = lines[len(lines)-n:]
	}
	return strings.Join(lines, "\n")
}

// crashClass derives a class signature from a Go crash dump: the panic/fatal message kind plus
// the innermost frame under the repository.
func crashClass(stderr string) string {
	kind := "crash"
	site := "unknown"
	lines := strings.Split(stderr, "\n")
	for _, l := range lines {
		if strings.HasPrefix(l, "panic: ") || strings.HasPrefix(l, "fatal error: ") {
			kind = l
			if i := strings.Index(kind, " [recovered]"); i > 0 {
				kind = kind[:i]
			}
			if len(kind) > 90 {
				kind = kind[:90]
			}
			break
		}
	}
	if strings.Contains(stderr, "WARNING: DATA RACE") {
		kind = "data race"
	}
	for _, l := range lines {
		l = strings.TrimSpace(l)
		if strings.HasPrefix(l, "github.com/tonkeeper/tongo/") && !strings.Contains(l, "utils/simhook") {
			site = strings.TrimPrefix(l, "github.com/tonkeeper/tongo/")
			if i := strings.Index(site, "("); i > 0 && strings.HasSuffix(site, ")") {
				// drop argument list
				if j := strings.LastIndex(site, "("); j > 0 {
					site = site[:j]
				}
			}
			break
		}
	}
	if kind == "data race" && (site == "unknown" || strings.Contains(stderr, "export_verif.go")) {
		// one side is the lock-free accessor the harness calls: the harness used it in the wrong mode
		// (or both stacks lie in the harness): a harness bug, never a property violation
		return "harness-race"
	}
	// numbers in the message (sizes, addresses) would make classes unstable
	kind = stripDigits(kind)
	return "crash|" + kind + "|" + site
}

func stripDigits(s string) string {
	var b strings.Builder
	prev := false
	for _, r := range s {
		if r >= '0' && r <= '9' {
			if !prev {
				b.WriteByte('N')
			}
			prev = true
			continue
		}
		prev = false
		b.WriteRune(r)
	}
	return b.String()
}

type agg struct {
	mu        sync.Mutex
	runs      int
	steps     int64
	simUs     int64
	fired     map[string]int
	probes    map[string]int
	digests   map[string]struct{}
	allDig    int
	states    map[uint64]struct{}
	grid      map[uint64]struct{}
	nontriv   int
	viol      []violationRec
	samples   []sample
	nondet    []int
	nondetInf []string
	selTies   int
	rechecked int
	crashes   []crashRec
	meta      *meta
	procs     int
}

type crashRec struct {
	Index  int
	Stderr string
	Kind   string // crash | watchdog
	Free   bool
	Start  int // first index of the worker generation that died
	Stride int
}

// batchSpec replays a whole worker generation: needed when a crash depends on state that earlier runs
// left in the process (a buffer pool of the library, a package-level cache).
type batchSpec struct {
	Start  int    `json:"start"`
	Stride int    `json:"stride"`
	Count  int    `json:"count"`
	Free   bool   `json:"free"`
	Tier   string `json:"tier"`
}

// runBatchOnce re-executes a batch of plans in one fresh process and returns its output and whether it died.
func runBatchOnce(bin string, b batchSpec, timeout time.Duration) (string, bool) {
	out, died, _ := runBatchSummary(bin, b, timeout)
	return out, died
}

// runBatchSummary is runBatchOnce that also returns the worker's summary when it completed.
func runBatchSummary(bin string, b batchSpec, timeout time.Duration) (string, bool, *summary) {
	out := filepath.Join(work, "batch-replay.summary.json")
	os.Remove(out)
	args := []string{"-test.run", "^TestWorker$", "-test.timeout", "0", "-verif.mode=batch", "-verif.prop=" + prop, "-verif.tier=" + b.Tier,
		"-verif.seed=" + strconv.FormatUint(seed, 10), "-verif.start=" + strconv.Itoa(b.Start), "-verif.stride=" + strconv.Itoa(b.Stride),
		"-verif.count=" + strconv.Itoa(b.Count), "-verif.recheck=0", "-verif.out=" + out}
	if b.Free {
		args = append(args, "-verif.free")
	}
	cmd := exec.Command(bin, args...)
	cmd.Env = workerEnv(b.Free)
	cmd.Dir = work
	var buf bytes.Buffer
	cmd.Stdout = &buf
	cmd.Stderr = &buf
	if err := cmd.Start(); err != nil {
		return err.Error(), false, nil
	}
	done := make(chan error, 1)
	go func() { done <- cmd.Wait() }()
	select {
	case <-done:
	case <-time.After(timeout):
		cmd.Process.Kill()
		<-done
		return tailStr(buf.String(), 60), false, nil
	}
	sb, err := os.ReadFile(out)
	if err != nil {
		return tailStr(buf.String(), 120), true, nil
	}
	var sm summary
	if unmarshal(sb, &sm) != nil {
		return tailStr(buf.String(), 120), true, nil
	}
	return tailStr(buf.String(), 120), false, &sm
}

func (a *agg) merge(s *summary, genStart, genStride int, free bool) {
	a.mu.Lock()
	defer a.mu.Unlock()
	for i := range s.Violations {
		s.Violations[i].GenStart, s.Violations[i].GenStride, s.Violations[i].GenFree = genStart, genStride, free
	}
	a.runs += s.Runs
	a.steps += s.Steps
	a.simUs += s.SimUs
	for k, v := range s.Fired {
		a.fired[k] += v
	}
	for k, v := range s.Probes {
		a.probes[k] += v
	}
	for _, d := range s.Digests {
		a.digests[d] = struct{}{}
	}
	a.allDig += s.AllDigests
	for _, st := range s.States {
		a.states[st] = struct{}{}
	}
	for _, g := range s.Grid {
		a.grid[g] = struct{}{}
	}
	a.nontriv += s.Nontrivial
	a.viol = append(a.viol, s.Violations...)
	if len(a.samples) < 3 {
		a.samples = append(a.samples, s.Samples...)
	}
	a.nondet = append(a.nondet, s.Nondeterm...)
	a.nondetInf = append(a.nondetInf, s.NondetInfo...)
	a.selTies += s.SelectTies
	a.rechecked += s.Rechecked
	if s.Meta != nil {
		a.meta = s.Meta
	}
	a.procs++
}

func newAgg() *agg {
	return &agg{fired: map[string]int{}, probes: map[string]int{}, digests: map[string]struct{}{}, states: map[uint64]struct{}{}, grid: map[uint64]struct{}{}}
}

// runBatch runs worker processes until the wall budget is used.
func runBatch(bin string, a *agg, budget time.Duration, free bool, workers int, recycle int, idxBase int) {
	deadline := time.Now().Add(budget)
	var wg sync.WaitGroup
	for wi := 0; wi < workers; wi++ {
		wg.Add(1)
		go func(wi int) {
			defer wg.Done()
			next := idxBase + wi
			for gen := 0; ; gen++ {
				remaining := time.Until(deadline)
				if remaining < 500*time.Millisecond {
					return
				}
				tag := fmt.Sprintf("w%d.g%d", wi, gen)
				if free {
					tag = "free." + tag
				}
				journal := filepath.Join(work, tag+".journal")
				out := filepath.Join(work, tag+".summary.json")
				logf := filepath.Join(work, tag+".log")
				args := []string{"-test.run", "^TestWorker$", "-test.timeout", "0", "-verif.mode=batch", "-verif.prop=" + prop, "-verif.tier=" + tier,
					"-verif.seed=" + strconv.FormatUint(seed, 10), "-verif.start=" + strconv.Itoa(next), "-verif.stride=" + strconv.Itoa(workers),
					"-verif.count=" + strconv.Itoa(recycle), "-verif.wall=" + fmt.Sprintf("%.1f", remaining.Seconds()),
					"-verif.journal=" + journal, "-verif.out=" + out}
				if free {
					args = append(args, "-verif.free")
				}
				if v := os.Getenv("VERIF_RECHECK"); v != "" {
					args = append(args, "-verif.recheck="+v)
				}
				cmd := exec.Command(bin, args...)
				cmd.Env = workerEnv(free)
				cmd.Dir = work
				lf, _ := os.Create(logf)
				cmd.Stdout = lf
				cmd.Stderr = lf
				if err := cmd.Start(); err != nil {
					lf.Close()
					fatal2("cannot start worker: %v", err)
				}
				done := make(chan error, 1)
				go func() { done <- cmd.Wait() }()
				watchdog := remaining + 180*time.Second
				kind := ""
				select {
				case <-done:
				case <-time.After(watchdog):
					cmd.Process.Kill()
					<-done
					kind = "watchdog"
				}
				lf.Close()
				b, err := os.ReadFile(out)
				if err == nil {
					var s summary
					if unmarshal(b, &s) == nil {
						a.merge(&s, next, workers, free)
						next = s.NextIndex
						os.Remove(journal)
						os.Remove(out)
						os.Remove(logf)
						continue
					}
				}
				// the worker died: find the plan that was running
				if kind == "" {
					kind = "crash"
				}
				idx := lastStarted(journal)
				lb, _ := os.ReadFile(logf)
				if strings.Contains(string(lb), "WATCHDOG: plan") {
					kind = "watchdog"
				}
				a.mu.Lock()
				a.crashes = append(a.crashes, crashRec{Index: idx, Stderr: tailStr(string(lb), 120), Kind: kind, Free: free, Start: next, Stride: workers})
				ncr := len(a.crashes)
				a.mu.Unlock()
				if idx < 0 || ncr > 12 {
					return
				}
				// runs before idx in this generation are lost for the statistics; continue after it
				next = idx + workers
			}
		}(wi)
	}
	wg.Wait()
}

func lastStarted(journal string) int {
	b, err := os.ReadFile(journal)
	if err != nil {
		return -1
	}
	idx := -1
	for _, l := range strings.Split(string(b), "\n") {
		if strings.HasPrefix(l, "S ") {
			if v, err := strconv.Atoi(l[2:]); err == nil {
				idx = v
			}
		}
	}
	return idx
}

func genPlanFile(bin string, idx int, free bool) (string, error) {
	pf := filepath.Join(work, fmt.Sprintf("plan-%d.json", idx))
	args := []string{"-test.run", "^TestWorker$", "-verif.mode=gen", "-verif.prop=" + prop, "-verif.tier=" + tier, "-verif.seed=" + strconv.FormatUint(seed, 10), "-verif.start=" + strconv.Itoa(idx), "-verif.out=" + pf}
	cmd := exec.Command(bin, args...)
	cmd.Env = workerEnv(false)
	cmd.Dir = work
	if b, err := cmd.CombinedOutput(); err != nil {
		return "", fmt.Errorf("%v: %s", err, b)
	}
	if free {
		var p map[string]any
		b, _ := os.ReadFile(pf)
		unmarshal(b, &p)
		p["free"] = true
		writeJSON(pf, p)
	}
	return pf, nil
}

func writeJSON(path string, v any) {
	b, _ := json.MarshalIndent(v, "", " ")
	if err := os.WriteFile(path, b, 0o644); err != nil {
		fatal2("write %s: %v", path, err)
	}
}

func classOf(r *result) string {
	if r == nil || len(r.Violations) == 0 {
		return ""
	}
	return r.Violations[0].Class
}

func hasClass(r *result, class string) bool {
	if r == nil {
		return false
	}
	for _, v := range r.Violations {
		if v.Class == class {
			return true
		}
	}
	return false
}

func clonePlan(p map[string]any) map[string]any {
	b, _ := json.Marshal(p)
	var q map[string]any
	unmarshal(b, &q)
	return q
}

// tryPlan runs a candidate and tells whether it still shows the class (crash classes: the process dies the same way).
func tryPlan(bin string, p map[string]any, class string, n *int) (bool, *result) {
	*n++
	pf := filepath.Join(work, fmt.Sprintf("cand-%d.json", *n))
	writeJSON(pf, p)
	free, _ := p["free"].(bool)
	r, stderr, err := runPlan(bin, pf, 1, free, 120*time.Second)
	os.Remove(pf)
	os.Remove(pf + ".result.json")
	if err != nil {
		if strings.HasPrefix(class, "crash|") && crashClass(stderr) == class {
			return true, nil
		}
		return false, nil
	}
	return hasClass(r, class), r
}

// minimise shrinks the plan while the same violation class persists.
func minimise(bin string, plan map[string]any, class string, budget time.Duration) (map[string]any, int) {
	deadline := time.Now().Add(budget)
	n := 0
	cur := clonePlan(plan)
	delete(cur, "trace")
	if ok, _ := tryPlan(bin, cur, class, &n); !ok {
		return plan, n // not reproducible without its trace; keep as is
	}
	lists := []string{"faults", "stalls", "ops"}
	changed := true
	for changed && time.Now().Before(deadline) {
		changed = false
		for _, key := range lists {
			l, _ := cur[key].([]any)
			// drop chunks, halving
			for chunk := len(l) / 2; chunk >= 1 && time.Now().Before(deadline); chunk /= 2 {
				for i := 0; i+chunk <= len(l) && time.Now().Before(deadline); {
					cand := clonePlan(cur)
					nl := append(append([]any{}, l[:i]...), l[i+chunk:]...)
					if len(nl) == 0 {
						delete(cand, key)
					} else {
						cand[key] = nl
					}
					if ok, _ := tryPlan(bin, cand, class, &n); ok {
						cur = cand
						l = nl
						changed = true
					} else {
						i += chunk
					}
				}
			}
		}
		// scalar parameters: try the smaller values an engine declared shrinkable ("p_min")
		if pm, ok := cur["p"].(map[string]any); ok {
			keys := make([]string, 0, len(pm))
			for k := range pm {
				keys = append(keys, k)
			}
			sort.Strings(keys)
			for _, k := range keys {
				var v float64
				switch x := pm[k].(type) {
				case float64:
					v = x
				case json.Number:
					v, _ = x.Float64()
				}
				for _, nv := range []int{0, 1} {
					if float64(nv) >= v || !time.Now().Before(deadline) {
						continue
					}
					cand := clonePlan(cur)
					cand["p"].(map[string]any)[k] = nv
					if ok, _ := tryPlan(bin, cand, class, &n); ok {
						cur = cand
						changed = true
						break
					}
				}
			}
		}
	}
	// record the schedule of the minimal plan and simplify it
	if strings.HasPrefix(class, "crash|") {
		return cur, n
	}
	ok, r := tryPlan(bin, cur, class, &n)
	if !ok || r == nil || len(r.Trace) == 0 {
		return cur, n
	}
	trace := r.Trace
	withTrace := func(tr []int) map[string]any {
		c := clonePlan(cur)
		arr := make([]any, len(tr))
		for i, v := range tr {
			arr[i] = v
		}
		c["trace"] = arr
		return c
	}
	if ok, _ := tryPlan(bin, withTrace(trace), class, &n); !ok {
		return cur, n
	}
	// truncate the tail (choices beyond the end are 0 = first enabled action)
	for cut := len(trace) / 2; cut >= 1 && time.Now().Before(deadline); cut /= 2 {
		for len(trace) > cut && time.Now().Before(deadline) {
			cand := trace[:len(trace)-cut]
			if ok, _ := tryPlan(bin, withTrace(cand), class, &n); ok {
				trace = cand
			} else {
				break
			}
		}
	}
	// zero chunks
	for chunk := len(trace) / 2; chunk >= 1 && time.Now().Before(deadline); chunk /= 2 {
		for i := 0; i+chunk <= len(trace) && time.Now().Before(deadline); i += chunk {
			allZero := true
			for _, v := range trace[i : i+chunk] {
				if v != 0 {
					allZero = false
				}
			}
			if allZero {
				continue
			}
			cand := append([]int{}, trace...)
			for j := i; j < i+chunk; j++ {
				cand[j] = 0
			}
			if ok, _ := tryPlan(bin, withTrace(cand), class, &n); ok {
				trace = cand
			}
		}
	}
	return withTrace(trace), n
}

func loadKnown() []knownFinding {
	b, err := os.ReadFile(filepath.Join(root, "known_findings.json"))
	if err != nil {
		return nil
	}
	var k []knownFinding
	if err := unmarshal(b, &k); err != nil {
		fatal2("known_findings.json does not parse: %v", err)
	}
	return k
}

func matchKnown(k []knownFinding, class string) *knownFinding {
	for i := range k {
		if k[i].Property != prop || k[i].Status != "known" {
			continue
		}
		if k[i].Class == class || (strings.HasSuffix(k[i].Class, "*") && strings.HasPrefix(class, strings.TrimSuffix(k[i].Class, "*"))) {
			return &k[i]
		}
	}
	return nil
}

type replayFile struct {
	Batch         *batchSpec     `json:"batch,omitempty"`
	Property      string         `json:"property"`
	Class         string         `json:"class"`
	Violation     *violation     `json:"violation,omitempty"`
	CrashOutput   string         `json:"crash_output,omitempty"`
	Plan          map[string]any `json:"plan"`
	Minimised     bool           `json:"minimised"`
	Candidates    int            `json:"minimisation_candidates"`
	OriginalIndex int            `json:"original_index"`
	VerifSeed     uint64         `json:"verif_seed"`
	Tail          []string       `json:"event_log_tail,omitempty"`
	Picture       []string       `json:"goroutine_picture,omitempty"`
}

func shortHash(s string) string {
	h := sha256.Sum256([]byte(s))
	return hex.EncodeToString(h[:4])
}

func main() {
	if len(os.Args) < 3 {
		fmt.Fprintln(os.Stderr, "usage: supervisor <ID> quick|thorough|selftest|--replay <file>")
		os.Exit(2)
	}
	if r := os.Getenv("VERIF_ROOT"); r != "" {
		root = r
	}
	prop = os.Args[1]
	mode := os.Args[2]
	if v := os.Getenv("VERIF_SEED"); v != "" {
		if s, err := strconv.ParseUint(v, 10, 64); err == nil {
			seed = s
		} else if s, err := strconv.ParseInt(v, 10, 64); err == nil {
			seed = uint64(s)
		}
	}
	if v := os.Getenv("VERIF_WORKERS"); v != "" {
		if n, err := strconv.Atoi(v); err == nil && n > 0 {
			nwork = n
		}
	}
	work = filepath.Join(root, ".work", prop)
	os.RemoveAll(work)
	if err := os.MkdirAll(work, 0o755); err != nil {
		fatal2("%v", err)
	}
	os.MkdirAll(filepath.Join(root, "replays"), 0o755)
	os.MkdirAll(filepath.Join(root, "evidence"), 0o755)

	switch mode {
	case "--replay":
		if len(os.Args) < 4 {
			fatal2("--replay needs a file")
		}
		os.Exit(replay(os.Args[3]))
	case "selftest":
		tier = "quick"
		n := 40
		if v, err := strconv.Atoi(os.Getenv("VERIF_SELFTEST_PLANS")); err == nil && v > 0 {
			n = v // a larger sample on request (after a new seam or fault kind)
		}
		os.Exit(selftest(n))
	case "quick", "thorough":
		tier = mode
		os.Exit(check())
	default:
		fatal2("unknown mode %q", mode)
	}
}

func replay(path string) int {
	b, err := os.ReadFile(path)
	if err != nil {
		fatal2("%v", err)
	}
	var rf replayFile
	if err := unmarshal(b, &rf); err != nil || rf.Plan == nil {
		fatal2("replay file does not parse: %v", err)
	}
	if rf.Batch != nil {
		tier = rf.Batch.Tier
		if rf.VerifSeed != 0 {
			seed = rf.VerifSeed
		}
		bin := build(rf.Batch.Free)
		out, died, sm := runBatchSummary(bin, *rf.Batch, 1800*time.Second)
		if !died && sm != nil {
			for i := range sm.Violations {
				for _, x := range sm.Violations[i].Result.Violations {
					if x.Class == rf.Class {
						fmt.Printf("reproduced (batch of %d plans in one process): %s: %s\nVIOLATION property=%s replay=%s\n", rf.Batch.Count, x.Class, x.Detail, prop, path)
						return 1
					}
				}
			}
		}
		if died {
			cc := crashClass(out)
			fmt.Println(tailStr(out, 40))
			fmt.Printf("reproduced (batch of %d plans in one process): %s\nVIOLATION property=%s replay=%s\n", rf.Batch.Count, cc, prop, path)
			return 1
		}
		fmt.Printf("replay of %s: the batch of %d plans completes (recorded class %q does not occur on this tree)\n", path, rf.Batch.Count, rf.Class)
		return 0
	}
	free, _ := rf.Plan["free"].(bool)
	bin := build(free)
	pf := filepath.Join(work, "replay-plan.json")
	writeJSON(pf, rf.Plan)
	// controlled mode: one exact re-execution; when Go's select coin (pool.ConnPool.Run with both cases ready) takes part
	// in the recorded run, up to four
	attempts := 4
	if free {
		attempts = 20
	}
	seen := map[string]bool{}
	for i := 0; i < attempts; i++ {
		r, stderr, err := runPlan(bin, pf, 1, free, 300*time.Second)
		if err != nil {
			cc := crashClass(stderr)
			fmt.Println(stderr)
			if strings.HasPrefix(rf.Class, "crash|") && cc == rf.Class {
				fmt.Printf("reproduced: %s\nVIOLATION property=%s replay=%s\n", cc, prop, path)
				return 1
			}
			if err.Error() == "watchdog" {
				fatal2("replay hit the watchdog")
			}
			fmt.Printf("crashed with class %q, recorded class %q\nVIOLATION property=%s replay=%s\n", cc, rf.Class, prop, path)
			return 1
		}
		seen[r.Digest] = true
		if !free && len(seen) > 1 {
			fmt.Printf("note: executions of this plan differ (digests %v): an unseedable select among ready cases takes part\n", len(seen))
		}
		if hasClass(r, rf.Class) {
			for _, v := range r.Violations {
				fmt.Printf("reproduced: %s: %s\n", v.Class, v.Detail)
			}
			fmt.Printf("VIOLATION property=%s replay=%s\n", prop, path)
			return 1
		}
		if len(r.Violations) > 0 {
			for _, v := range r.Violations {
				fmt.Printf("different violation: %s: %s\n", v.Class, v.Detail)
			}
			fmt.Printf("VIOLATION property=%s replay=%s\n", prop, path)
			return 1
		}
	}
	fmt.Printf("replay of %s: no violation (recorded class %q does not occur on this tree)\n", path, rf.Class)
	return 0
}

// selftest: the same plans in several processes at several GOMAXPROCS settings must give identical digests.
func selftest(n int) int {
	bin := build(false)
	type key struct{ idx int }
	digests := map[int]map[string]int{}
	var mu sync.Mutex
	var wg sync.WaitGroup
	sem := make(chan struct{}, nwork)
	bad := 0
	for rep := 0; rep < 3; rep++ {
		for _, gmp := range []string{"1", "4", "16"} {
			for i := 0; i < n; i++ {
				wg.Add(1)
				sem <- struct{}{}
				go func(i int, gmp string, rep int) {
					defer wg.Done()
					defer func() { <-sem }()
					out := filepath.Join(work, fmt.Sprintf("st-%d-%s-%d.json", i, gmp, rep))
					args := []string{"-test.run", "^TestWorker$", "-verif.mode=gen", "-verif.exec", "-verif.prop=" + prop, "-verif.tier=" + tier, "-verif.seed=" + strconv.FormatUint(seed, 10), "-verif.start=" + strconv.Itoa(i), "-verif.out=" + out}
					cmd := exec.Command(bin, args...)
					cmd.Env = append(workerEnv(false), "GOMAXPROCS="+gmp)
					cmd.Dir = work
					cmd.CombinedOutput()
					b, err := os.ReadFile(out)
					os.Remove(out)
					d := "CRASH"
					if err == nil {
						var r result
						if unmarshal(b, &r) == nil {
							d = r.Digest
						}
					}
					mu.Lock()
					if digests[i] == nil {
						digests[i] = map[string]int{}
					}
					digests[i][d]++
					mu.Unlock()
				}(i, gmp, rep)
			}
		}
	}
	wg.Wait()
	ties := 0
	for i := 0; i < n; i++ {
		if len(digests[i]) != 1 {
			if why := explainDivergence(bin, i); why == "" {
				ties++
				fmt.Fprintf(os.Stderr, "selftest: plan %d has %d different digests; the executions first differ in Go's select among two ready cases of pool.ConnPool.Run (unseedable): tolerated\n", i, len(digests[i]))
				continue
			} else {
				fmt.Fprintf(os.Stderr, "selftest: plan %d has %d different digests: %v: %s\n", i, len(digests[i]), digests[i], why)
			}
			bad++
		}
	}
	fmt.Printf("selftest %s: %d plans x 9 processes (GOMAXPROCS 1/4/16 x 3), %d divergent, %d select ties\n", prop, n, bad, ties)
	if bad > 0 {
		return 2
	}
	return 0
}

var (
	tieRefreshRe = regexp.MustCompile(`grant [RW] liteapi/pool\.\(\*ConnPool\)\.Run @liteapi/pool\.\(\*ConnPool\)\.updateBest`)
	tieNotifyRe  = regexp.MustCompile(`grant [RW] liteapi/pool\.\(\*ConnPool\)\.Run @liteapi/pool\.\(\*ConnPool\)\.notifySubscribers`)
)

// explainDivergence re-executes plan i with complete event logs until two executions differ and returns "" when
// every pair first differs in the select of pool.ConnPool.Run (see DESIGN 2.3), else a description.
func explainDivergence(bin string, i int) string {
	logs := map[string][]string{}
	var order []string
	for k := 0; k < 12 && len(logs) < 3; k++ {
		out := filepath.Join(work, fmt.Sprintf("sx-%d-%d.json", i, k))
		dump := out + ".log"
		args := []string{"-test.run", "^TestWorker$", "-verif.mode=gen", "-verif.exec", "-verif.prop=" + prop, "-verif.tier=" + tier, "-verif.seed=" + strconv.FormatUint(seed, 10), "-verif.start=" + strconv.Itoa(i), "-verif.out=" + out}
		cmd := exec.Command(bin, args...)
		cmd.Env = append(workerEnv(false), "GOMAXPROCS="+[]string{"1", "4", "16"}[k%3], "VERIF_DUMPLOG="+dump)
		cmd.Dir = work
		cmd.CombinedOutput()
		b, err := os.ReadFile(out)
		lb, _ := os.ReadFile(dump)
		os.Remove(out)
		os.Remove(dump)
		if err != nil {
			return "a re-execution crashed"
		}
		var r result
		if unmarshal(b, &r) != nil {
			return "a re-execution gave no result"
		}
		if _, ok := logs[r.Digest]; !ok {
			logs[r.Digest] = strings.Split(string(lb), "\n")
			order = append(order, r.Digest)
		}
	}
	if len(order) < 2 {
		return "the divergence did not show again in 12 re-executions"
	}
	a := logs[order[0]]
	for _, d := range order[1:] {
		b := logs[d]
		for j := 0; j < len(a) || j < len(b); j++ {
			var x, y string
			if j < len(a) {
				x = a[j]
			}
			if j < len(b) {
				y = b[j]
			}
			if x == y {
				continue
			}
			rx, nx := tieRefreshRe.MatchString(x), tieNotifyRe.MatchString(x)
			ry, ny := tieRefreshRe.MatchString(y), tieNotifyRe.MatchString(y)
			if rx == ry && nx == ny {
				return fmt.Sprintf("first difference at line %d: %q vs %q", j, x, y)
			}
			break
		}
	}
	return ""
}

func check() int {
	budget := 40 * time.Second
	raceBudget := 0 * time.Second
	if tier == "thorough" {
		budget = 15 * time.Minute
	}
	if v := os.Getenv("VERIF_BUDGET_S"); v != "" {
		if f, err := strconv.ParseFloat(v, 64); err == nil {
			budget = time.Duration(f * float64(time.Second))
		}
	}
	hasRace := prop == "C08" || prop == "C11" || prop == "C12" || prop == "C13" || prop == "C19"
	if hasRace {
		raceBudget = budget / 3
		if prop == "C11" || prop == "C19" || prop == "C08" {
			raceBudget = budget / 5
		}
		if v := os.Getenv("VERIF_RACE_BUDGET_S"); v != "" {
			if f, err := strconv.ParseFloat(v, 64); err == nil {
				raceBudget = time.Duration(f * float64(time.Second))
			}
		}
	}
	bin := build(false)
	raceBin := ""
	if hasRace && raceBudget > 0 {
		raceBin = build(true)
	}
	if tier == "thorough" {
		if rc := selftest(40); rc != 0 {
			fatal2("determinism self-test failed")
		}
	}
	a := newAgg()
	runBatch(bin, a, budget, false, nwork, 300, 0)
	fa := newAgg()
	if raceBin != "" {
		rw := nwork / 2
		if rw < 1 {
			rw = 1
		}
		recycle := 150
		if prop == "C08" {
			recycle = 20 // process-wide decoder caches are filled on first use: fresh processes matter here
		}
		if prop == "C19" {
			recycle = 10 // likewise for tables built on the first request of a process
		}
		runBatch(raceBin, fa, raceBudget, true, rw, recycle, 0)
	}
	// A run whose digest differs on re-execution is not believed (it is discarded from every count), but it
	// cannot hide a violation: violations are only reported after they reproduced in a fresh process.
	// Go's select among several ready cases is the one runtime choice the simulator cannot seed. A re-execution
	// whose event log first differs in what pool.ConnPool.Run picks (refresh or notify, both ready) is that coin and
	// is counted separately (select_ties); any other divergence is unexplained, and more than a handful of those
	// means the harness lost control: exit 2.
	if n := len(a.nondet); n > 3 && n*100 > 3*a.rechecked {
		fatal2("%d of %d re-executed runs diverged for an unexplained reason (indices %v; %v): results are not believed", n, a.rechecked, a.nondet, a.nondetInf)
	}
	if len(a.nondet) > 0 {
		fmt.Fprintf(os.Stderr, "note: %d of %d re-executed runs diverged for an unexplained reason: %v\n", len(a.nondet), a.rechecked, a.nondetInf)
	}

	known := loadKnown()
	type finding struct {
		class string
		plan  map[string]any
		res   *result
		crash string
		free  bool
		count int
		batch *batchSpec
		// worker generation that found it
		genStart, genStride int
		hasGen              bool
	}
	byClass := map[string]*finding{}
	var order []string
	trouble := 0
	var curGen *violationRec
	add := func(class string, plan map[string]any, res *result, crash string, free bool) {
		f := byClass[class]
		if f == nil {
			f = &finding{class: class, plan: plan, res: res, crash: crash, free: free}
			if curGen != nil {
				f.genStart, f.genStride, f.hasGen = curGen.GenStart, curGen.GenStride, true
			}
			byClass[class] = f
			order = append(order, class)
		} else if idx(plan) < idx(f.plan) {
			f.plan, f.res, f.crash = plan, res, crash
			if curGen != nil {
				// the worker generation goes with the plan (a violation that needs what earlier runs left in the
				// process is re-executed as that generation)
				f.genStart, f.genStride, f.hasGen = curGen.GenStart, curGen.GenStride, true
			}
		}
		f.count++
	}
	for _, src := range []*agg{a, fa} {
		for i := range src.viol {
			v := &src.viol[i]
			seen := map[string]bool{}
			for _, x := range v.Result.Violations {
				if strings.HasPrefix(x.Class, "harness") {
					trouble++
					fmt.Fprintf(os.Stderr, "harness self-check failed in plan %d: %s\n", idx(v.Plan), x.Detail)
					continue
				}
				if !seen[x.Class] {
					seen[x.Class] = true
					r := v.Result
					// put this class first
					r.Violations = append([]violation{x}, r.Violations...)
					curGen = v
					add(x.Class, v.Plan, &r, "", src == fa)
					curGen = nil
				}
			}
		}
	}
	// crashes: re-run the suspected plan alone
	freeHangs := 0
	for _, src := range []*agg{a, fa} {
		for _, c := range src.crashes {
			if c.Kind == "watchdog" && c.Free {
				// with real mutexes a goroutine waiting on a lock is not durably blocked: a deadlock of the system
				// under test (which controlled mode reports with its wait-for picture) shows here only as a bubble
				// that never becomes quiescent. Counted, not judged.
				freeHangs++
				continue
			}
			if c.Index < 0 {
				trouble++
				fmt.Fprintf(os.Stderr, "worker died before starting a plan:\n%s\n", c.Stderr)
				continue
			}
			b := bin
			if c.Free {
				b = raceBin
			}
			pf, err := genPlanFile(bin, c.Index, c.Free)
			if err != nil {
				trouble++
				continue
			}
			reproduced := false
			tries := 1
			if c.Free {
				tries = 10
			}
			to := 300 * time.Second
			if c.Kind == "watchdog" {
				tries, to = 1, 150*time.Second
			}
			for t := 0; t < tries && !reproduced; t++ {
				r, stderr, err := runPlan(b, pf, 1, c.Free, to)
				if err != nil && err.Error() != "watchdog" {
					var plan map[string]any
					pb, _ := os.ReadFile(pf)
					unmarshal(pb, &plan)
					if cc := crashClass(stderr); cc == "harness-race" {
						trouble++
						if trouble <= 2 {
							fmt.Fprintf(os.Stderr, "data race inside the harness (no frame under the repository):\n%s\n", tailStr(stderr, 40))
						}
					} else {
						add(cc, plan, nil, stderr, c.Free)
					}
					reproduced = true
				} else if err == nil && len(r.Violations) > 0 {
					reproduced = true // shows up as an ordinary violation when run alone
					var plan map[string]any
					pb, _ := os.ReadFile(pf)
					unmarshal(pb, &plan)
					add(r.Violations[0].Class, plan, r, "", c.Free)
				}
			}
			if !reproduced && c.Kind == "crash" && c.Stride > 0 {
				// the crash may depend on what earlier runs left in the process: replay the whole generation
				spec := batchSpec{Start: c.Start, Stride: c.Stride, Count: (c.Index-c.Start)/c.Stride + 1, Free: c.Free, Tier: tier}
				if out, died := runBatchOnce(b, spec, 900*time.Second); died {
					if cc := crashClass(out); cc != "harness-race" {
						var plan map[string]any
						pb, _ := os.ReadFile(pf)
						unmarshal(pb, &plan)
						add(cc, plan, nil, out, c.Free)
						byClass[cc].batch = &spec
						reproduced = true
					}
				}
			}
			if !reproduced {
				trouble++
				fmt.Fprintf(os.Stderr, "worker %s at plan %d did not reproduce when run alone:\n%s\n", c.Kind, c.Index, tailStr(c.Stderr, 30))
			}
		}
	}
	if a.runs == 0 && len(order) == 0 {
		fatal2("no run completed and nothing reproduced (see %s)", work)
	}
	sort.Strings(order)
	// one root cause often shows under several class signatures; report the first maxReported in full
	const maxReported = 6
	omitted := 0
	if len(order) > maxReported {
		omitted = len(order) - maxReported
		var keep []string
		for _, c := range order { // known findings and crashes are never dropped from the report
			if matchKnown(known, c) != nil {
				keep = append(keep, c)
			}
		}
		for _, c := range order { // crashes reproduce by themselves: keep them
			if len(keep) < maxReported && matchKnown(known, c) == nil && strings.HasPrefix(c, "crash|") {
				keep = append(keep, c)
			}
		}
		for _, c := range order {
			if len(keep) >= maxReported {
				break
			}
			if matchKnown(known, c) == nil && !strings.HasPrefix(c, "crash|") {
				keep = append(keep, c)
			}
		}
		omittedList := []string{}
		in := map[string]bool{}
		for _, c := range keep {
			in[c] = true
		}
		for _, c := range order {
			if !in[c] {
				omittedList = append(omittedList, fmt.Sprintf("%s (%d runs, first plan %d)", c, byClass[c].count, idx(byClass[c].plan)))
			}
		}
		omitted = len(omittedList)
		fmt.Printf("%d further violation classes not expanded into replay files: %s\n", omitted, strings.Join(omittedList, "; "))
		sort.Strings(keep)
		order = keep
	}
	exit := 0
	nViol := 0
	var lines []string
	for ci, class := range order {
		f := byClass[class]
		b := bin
		if f.free {
			b = raceBin
		}
		plan := f.plan
		cands := 0
		minimised := false
		if ci < 4 && !f.free && f.batch == nil {
			mp, n := minimise(b, plan, class, 90*time.Second)
			cands = n
			if n > 1 {
				plan, minimised = mp, true
			}
		}
		rf := replayFile{Batch: f.batch, Property: prop, Class: class, Plan: plan, Minimised: minimised, Candidates: cands, OriginalIndex: idx(f.plan), VerifSeed: seed, CrashOutput: tailStr(f.crash, 60)}
		if f.res != nil && len(f.res.Violations) > 0 {
			v := f.res.Violations[0]
			rf.Violation = &v
			rf.Tail = f.res.Tail
			rf.Picture = f.res.Picture
		}
		// confirm in a fresh process; fall back to the unminimised plan
		pf := filepath.Join(work, "confirm.json")
		confirm := func(p map[string]any) bool {
			writeJSON(pf, p)
			tries := 4
			if f.free {
				tries = 20
			}
			for t := 0; t < tries; t++ {
				r, stderr, err := runPlan(b, pf, 1, f.free, 300*time.Second)
				if err != nil {
					if crashClass(stderr) == class {
						return true
					}
					continue
				}
				if hasClass(r, class) {
					if r.Tail != nil {
						rf.Tail = r.Tail
						rf.Picture = r.Picture
						for _, v := range r.Violations {
							if v.Class == class {
								vv := v
								rf.Violation = &vv
							}
						}
					}
					return true
				}
			}
			return false
		}
		if f.batch != nil {
			// already reproduced as a batch; a single plan does not show it
		} else if !confirm(plan) {
			if minimised && confirm(f.plan) {
				rf.Plan, rf.Minimised = f.plan, false
			} else if spec, ok := batchConfirm(b, f.hasGen, f.genStart, f.genStride, idx(f.plan), f.free, class); ok {
				// the violation depends on what earlier runs left in the process (a pool or cache of the library)
				rf.Plan, rf.Minimised, rf.Batch = f.plan, false, spec
			} else {
				trouble++
				fmt.Fprintf(os.Stderr, "violation class %q (plan %d) did not reproduce in a fresh process\n", class, idx(f.plan))
				continue
			}
		}
		name := fmt.Sprintf("%s-%d-%d-%s.json", prop, seed, rf.OriginalIndex, shortHash(class))
		path := filepath.Join(root, "replays", name)
		writeJSON(path, rf)
		detail := ""
		if rf.Violation != nil {
			detail = rf.Violation.Detail
		} else {
			detail = firstLine(rf.CrashOutput)
		}
		if len(detail) > 300 {
			detail = detail[:300]
		}
		if k := matchKnown(known, class); k != nil {
			lines = append(lines, fmt.Sprintf("KNOWN-FINDING: property=%s %s [class %s, %d runs, replay=%s]", prop, k.Description, class, f.count, path))
			continue
		}
		nViol++
		exit = 1
		lines = append(lines, fmt.Sprintf("violation class=%s runs=%d: %s", class, f.count, detail))
		lines = append(lines, fmt.Sprintf("VIOLATION property=%s replay=%s", prop, path))
	}
	if freeHangs > 0 {
		fa.fired["free-running-bubble-never-quiescent"] += freeHangs
	}
	writeEvidence(a, fa, nViol, len(order))
	wall := time.Since(tStart).Seconds()
	fmt.Printf("%s %s seed=%d: %d controlled runs (%d non-trivial, %d distinct digests), %d free-running race runs, %.0f simulated s, %.1f s wall, %d violation classes\n",
		prop, tier, seed, a.runs, a.nontriv, len(a.digests), fa.runs, float64(a.simUs)/1e6, wall, len(order))
	for _, l := range lines {
		fmt.Println(l)
	}
	if exit == 0 && trouble > 0 {
		fatal2("%d harness problem(s), see above", trouble)
	}
	return exit
}

// batchConfirm re-executes the worker generation that found a violation, up to the violating plan, in one fresh
// process and tells whether the class shows again (as a violation of that batch or as a crash of that class).
func batchConfirm(bin string, hasGen bool, start, stride, index int, free bool, class string) (*batchSpec, bool) {
	if !hasGen || stride <= 0 || index < start {
		return nil, false
	}
	spec := &batchSpec{Start: start, Stride: stride, Count: (index-start)/stride + 1, Free: free, Tier: tier}
	out, died, sm := runBatchSummary(bin, *spec, 900*time.Second)
	if died {
		return spec, crashClass(out) == class
	}
	if sm != nil {
		for i := range sm.Violations {
			for _, x := range sm.Violations[i].Result.Violations {
				if x.Class == class {
					return spec, true
				}
			}
		}
	}
	return nil, false
}

func firstLine(s string) string {
	for _, l := range strings.Split(s, "\n") {
		if strings.HasPrefix(l, "panic:") || strings.HasPrefix(l, "fatal error:") || strings.Contains(l, "DATA RACE") {
			return l
		}
	}
	return strings.SplitN(s, "\n", 2)[0]
}

func idx(p map[string]any) int {
	switch v := p["index"].(type) {
	case float64:
		return int(v)
	case json.Number:
		n, _ := v.Int64()
		return int(n)
	}
	return 0
}

func writeEvidence(a, fa *agg, nViol, nClasses int) {
	wall := time.Since(tStart).Seconds()
	m := a.meta
	if m == nil {
		m = &meta{}
	}
	var samples []any
	for i, s := range a.samples {
		if i >= 3 {
			break
		}
		samples = append(samples, s)
	}
	var zero []string
	for k, v := range a.probes {
		if v == 0 {
			zero = append(zero, k)
		}
	}
	sort.Strings(zero)
	cov := map[string]any{
		"evaluations":            a.runs + fa.runs,
		"distinct_nontrivial":    len(a.digests),
		"rule":                   m.Rule,
		"samples":                samples,
		"controlled_runs":        a.runs,
		"free_running_race_runs": fa.runs,
		"nontrivial_runs":        a.nontriv,
		"distinct_digests_all_runs_sum_over_workers": a.allDig,
		"distinct_abstract_states":                   len(a.states),
		"driver_steps":                               a.steps,
		"simulated_seconds":                          float64(a.simUs) / 1e6,
		"runs_per_hour":                              float64(a.runs+fa.runs) / wall * 3600,
		"fault_kinds_fired":                          a.fired,
		"probes":                                     a.probes,
		"probes_unreached":                           zero,
		"determinism_rechecks":                       a.rechecked,
		"determinism_mismatches":                     len(a.nondet),
		"determinism_select_ties_go_runtime_coin":    a.selTies,
		"worker_processes":                           a.procs + fa.procs,
		"workers":                                    nwork,
		"components_real":                            m.Real,
		"components_simulated":                       m.Simulated,
		"violation_classes":                          nClasses,
		"technique":                                  m.Technique,
	}
	if len(m.GridTotals) > 0 {
		reached := map[string]int{}
		for g := range a.grid {
			reached[strconv.Itoa(int(g>>56))]++
		}
		cells := map[string]string{}
		for k, tot := range m.GridTotals {
			cells[k] = fmt.Sprintf("%d of %d", reached[k], tot)
		}
		cov["bounded_grid_cells_reached"] = cells
		cov["bounded_grid_rule"] = m.GridRule
	}
	if fa.runs > 0 {
		cov["free_running_fault_kinds_fired"] = fa.fired
	}
	ev := map[string]any{
		"property_id": prop,
		"tier":        tier,
		"seed":        seed,
		"level":       "exploration",
		"coverage":    cov,
		"assumptions": m.Assumptions,
		"wall_s":      wall,
		"violations":  nViol,
	}
	writeJSON(filepath.Join(root, "evidence", prop+".json"), ev)
}
