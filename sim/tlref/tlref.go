// Package tlref is a small TL (Type Language) writer/reader written from the TL serialisation
// rules, independent of the repository's tl package. Constructor ids are taken from the text of
// lite_api.tl by a line parser.
package tlref

import (
	"bufio"
	"encoding/binary"
	"errors"
	"os"
	"strconv"
	"strings"
)

// Mark remembers where a length-like field sits in the encoding (for targeted mutations).
type Mark struct {
	Off  int
	Kind string // count | mode | bytes
	Len  int    // bytes: length of the data
}

// W builds a TL value.
type W struct {
	B     []byte
	Marks []Mark
}

// Count writes a vector length.
func (w *W) Count(n int) *W {
	w.Marks = append(w.Marks, Mark{Off: len(w.B), Kind: "count", Len: n})
	return w.U32(uint32(n))
}

// Mode writes a flags field (mode:#).
func (w *W) Mode(m uint32) *W {
	w.Marks = append(w.Marks, Mark{Off: len(w.B), Kind: "mode"})
	return w.U32(m)
}

func (w *W) U32(v uint32) *W  { w.B = binary.LittleEndian.AppendUint32(w.B, v); return w }
func (w *W) U64(v uint64) *W  { w.B = binary.LittleEndian.AppendUint64(w.B, v); return w }
func (w *W) Raw(b []byte) *W  { w.B = append(w.B, b...); return w }
func (w *W) I256(b []byte) *W { return w.Raw(pad32(b)) }
func (w *W) Bool(v bool) *W {
	if v {
		return w.U32(0x997275b5)
	}
	return w.U32(0xbc799737)
}

func pad32(b []byte) []byte {
	out := make([]byte, 32)
	copy(out, b)
	return out
}

// Bytes writes a TL bytes/string value: 1-byte length (<254) or 0xFE + 3-byte length, data, padding to 4.
func (w *W) Bytes(b []byte) *W {
	w.Marks = append(w.Marks, Mark{Off: len(w.B), Kind: "bytes", Len: len(b)})
	n := len(b)
	total := 0
	if n < 254 {
		w.B = append(w.B, byte(n))
		total = 1 + n
	} else {
		w.B = append(w.B, 254, byte(n), byte(n>>8), byte(n>>16))
		total = 4 + n
	}
	w.B = append(w.B, b...)
	for total%4 != 0 {
		w.B = append(w.B, 0)
		total++
	}
	return w
}

// BytesLying writes a bytes value whose declared length differs from the data that follows.
func (w *W) BytesLying(declared int, b []byte, long bool) *W {
	if declared < 254 && !long {
		w.B = append(w.B, byte(declared))
	} else {
		w.B = append(w.B, 254, byte(declared), byte(declared>>8), byte(declared>>16))
	}
	w.B = append(w.B, b...)
	for len(w.B)%4 != 0 {
		w.B = append(w.B, 0)
	}
	return w
}

var ErrShort = errors.New("tlref: short input")

// R reads a TL value.
type R struct {
	B   []byte
	Err error
}

func (r *R) take(n int) []byte {
	if r.Err != nil {
		return make([]byte, n)
	}
	if n < 0 || len(r.B) < n {
		r.Err = ErrShort
		return make([]byte, max(n, 0))
	}
	b := r.B[:n]
	r.B = r.B[n:]
	return b
}

func (r *R) U32() uint32  { return binary.LittleEndian.Uint32(r.take(4)) }
func (r *R) U64() uint64  { return binary.LittleEndian.Uint64(r.take(8)) }
func (r *R) I256() []byte { return r.take(32) }
func (r *R) Bytes() []byte {
	first := r.take(1)[0]
	n, hdr := int(first), 1
	if first == 254 {
		l := r.take(3)
		n = int(l[0]) | int(l[1])<<8 | int(l[2])<<16
		hdr = 4
	} else if first == 255 {
		r.Err = errors.New("tlref: bad bytes prefix")
		return nil
	}
	b := r.take(n)
	for (hdr+n)%4 != 0 {
		r.take(1)
		n++
	}
	return b
}
func (r *R) Rest() []byte { b := r.B; r.B = nil; return b }

// Schema maps constructor / function names to ids.
type Schema map[string]uint32

// LoadSchema parses lines of the form "name#hexid ... = Type;" (also inside // comments, which is how
// lite_api.tl documents the query wrappers).
func LoadSchema(path string) (Schema, error) {
	f, err := os.Open(path)
	if err != nil {
		return nil, err
	}
	defer f.Close()
	s := Schema{}
	sc := bufio.NewScanner(f)
	for sc.Scan() {
		line := strings.TrimSpace(sc.Text())
		line = strings.TrimSpace(strings.TrimPrefix(line, "//"))
		i := strings.Index(line, "#")
		if i <= 0 || !strings.Contains(line, "=") {
			continue
		}
		name := line[:i]
		if strings.ContainsAny(name, " \t") {
			continue
		}
		rest := line[i+1:]
		j := strings.IndexAny(rest, " \t")
		if j < 0 {
			continue
		}
		v, err := strconv.ParseUint(rest[:j], 16, 32)
		if err != nil {
			continue
		}
		s[name] = uint32(v)
	}
	return s, sc.Err()
}

func (s Schema) ID(name string) uint32 {
	v, ok := s[name]
	if !ok {
		panic("tlref: no constructor " + name)
	}
	return v
}
