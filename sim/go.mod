module verif/sim

go 1.26

require (
	github.com/anishathalye/porcupine v1.3.0
	github.com/oasisprotocol/curve25519-voi v0.0.0-20220328075252-7dd334e3daae
	github.com/tonkeeper/tongo v0.0.0
	golang.org/x/crypto v0.17.0
)

require (
	github.com/snksoft/crc v1.1.0 // indirect
	golang.org/x/exp v0.0.0-20230116083435-1de6713980de // indirect
	golang.org/x/sys v0.15.0 // indirect
)

replace github.com/tonkeeper/tongo => /repo
