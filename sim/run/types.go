// Package run defines plans, results and the registry of per-property engines.
package run

import (
	"crypto/sha256"
	"encoding/hex"
	"encoding/json"
	"fmt"
	"os"
	"regexp"
	"runtime"
	"runtime/debug"
	"sort"
	"strings"
	"testing"
	"testing/cryptotest"
	"testing/synctest"
	"time"

	mrand "math/rand"

	"verif/sim/core"
)

// Fault is a planned fault. The meaning of A, B, C depends on Kind.
type Fault struct {
	Kind   string            `json:"kind"`
	AtMs   int               `json:"at_ms,omitempty"`
	Host   int               `json:"host,omitempty"`
	Conn   int               `json:"conn,omitempty"`
	A      int               `json:"a,omitempty"`
	B      int               `json:"b,omitempty"`
	C      int               `json:"c,omitempty"`
	Stream *core.StreamFault `json:"stream,omitempty"`
}

// Op is one workload operation.
type Op struct {
	Kind   string `json:"kind"`
	Caller int    `json:"caller,omitempty"`
	AtMs   int    `json:"at_ms,omitempty"`
	A      int    `json:"a,omitempty"`
	B      int    `json:"b,omitempty"`
	C      int    `json:"c,omitempty"`
	S      string `json:"s,omitempty"`
}

// Plan determines one execution exactly (together with the code).
type Plan struct {
	Property string         `json:"property"`
	Tier     string         `json:"tier,omitempty"`
	Seed     uint64         `json:"seed"`
	Index    int            `json:"index"`
	P        map[string]int `json:"p"`
	Ops      []Op           `json:"ops,omitempty"`
	Faults   []Fault        `json:"faults,omitempty"`
	Stalls   []core.Stall   `json:"stalls,omitempty"`
	// Trace, when present, replaces the schedule PRNG (replay / minimised schedules).
	Trace []int `json:"trace,omitempty"`
	// Free = free-running mode (real mutexes, race detector), not controlled.
	Free bool `json:"free,omitempty"`
}

func (p *Plan) Get(k string, def int) int {
	if v, ok := p.P[k]; ok {
		return v
	}
	return def
}

func (p *Plan) Clone() *Plan {
	b, _ := json.Marshal(p)
	var q Plan
	_ = json.Unmarshal(b, &q)
	return &q
}

// Result of one execution.
type Result struct {
	Property   string           `json:"property"`
	Index      int              `json:"index"`
	Seed       uint64           `json:"seed"`
	Digest     string           `json:"digest"`
	Steps      int              `json:"steps"`
	SimUs      int64            `json:"sim_us"`
	Violations []core.Violation `json:"violations,omitempty"`
	Fired      map[string]int   `json:"fired,omitempty"`
	Probes     map[string]int   `json:"probes,omitempty"`
	States     []uint64         `json:"states,omitempty"`
	Grid       []uint64         `json:"grid,omitempty"`
	Log        []string         `json:"-"`
	Nontrivial bool             `json:"nontrivial"`
	Trace      []int            `json:"trace,omitempty"`
	Tail       []string         `json:"tail,omitempty"`
	Picture    []string         `json:"picture,omitempty"`
	Real       []string         `json:"-"`
}

// Meta is the static description of an engine that goes into the evidence file.
type Meta struct {
	Rule        string   `json:"rule"`
	Real        []string `json:"real"`
	Simulated   []string `json:"simulated"`
	Assumptions []string `json:"assumptions"`
	Technique   string   `json:"technique"`
	// GridTotals: size of each sub-grid (class -> number of cells) and what a cell is
	GridTotals map[string]int `json:"grid_totals,omitempty"`
	GridRule   string         `json:"grid_rule,omitempty"`
}

// Engine is a per-property simulation engine.
type Engine struct {
	ID   string
	Meta Meta
	// Gen derives a plan from a run seed (swarm style).
	Gen func(seed uint64, index int, tier string) *Plan
	// Exec runs the plan inside a synctest bubble and fills the result.
	Exec func(t *testing.T, w *core.World, p *Plan, r *Result)
	// NoBubble engines do not need the synctest bubble / world (pure harnesses driven by plans).
	Direct func(t *testing.T, p *Plan, r *Result)
}

var Engines = map[string]*Engine{}

func Register(e *Engine) { Engines[e.ID] = e }

// RunSeed derives the seed of run i from VERIF_SEED.
func RunSeed(base uint64, i int) uint64 { return core.Mix(base, uint64(i)+1) }

var gcCounter int

// KeepLog makes Execute keep the complete event log in Result.Log (not serialised).
var KeepLog bool

// FirstDiff returns the first pair of differing lines of two event logs.
func FirstDiff(a, b []string) (int, string, string) {
	for i := 0; i < len(a) || i < len(b); i++ {
		var x, y string
		if i < len(a) {
			x = a[i]
		}
		if i < len(b) {
			y = b[i]
		}
		if x != y {
			return i, x, y
		}
	}
	return -1, "", ""
}

var (
	tieRefreshRe = regexp.MustCompile(`grant [RW] liteapi/pool\.\(\*ConnPool\)\.Run @liteapi/pool\.\(\*ConnPool\)\.updateBest`)
	tieNotifyRe  = regexp.MustCompile(`grant [RW] liteapi/pool\.\(\*ConnPool\)\.Run @liteapi/pool\.\(\*ConnPool\)\.notifySubscribers`)
)

// IsSelectTie tells whether two executions of one plan first differ in what pool.ConnPool.Run does next: refresh
// (its ticker case) or notify (its update-channel case). When both cases of that select are ready Go picks one
// with a runtime-internal random number that cannot be seeded: the one choice this simulator does not own.
// x and y are the first differing lines of the complete logs (a step line or the line listing a step's options):
// the coin shows as Run asking for the lock of updateBest in one execution and not in the other (or of
// notifySubscribers; a reader that queues behind a waiting writer is not among the options).
func IsSelectTie(x, y string) bool {
	rx, nx := tieRefreshRe.MatchString(x), tieNotifyRe.MatchString(x)
	ry, ny := tieRefreshRe.MatchString(y), tieNotifyRe.MatchString(y)
	return rx != ry || nx != ny
}

// Execute runs one plan to completion. The trace is always recorded in the result.
func Execute(t *testing.T, p *Plan, keepTrace bool) (res *Result) {
	e := Engines[p.Property]
	if e == nil {
		panic("no engine for " + p.Property)
	}
	res = &Result{Property: p.Property, Index: p.Index, Seed: p.Seed, Fired: map[string]int{}, Probes: map[string]int{}}
	cryptotest.SetGlobalRandom(t, p.Seed)
	mrand.Seed(int64(p.Seed))
	gcCounter++
	if gcCounter%20 == 0 && !p.Free {
		debug.SetGCPercent(-1)
		runtime.GC()
	}
	if e.Direct != nil {
		e.Direct(t, p, res)
		return res
	}
	func() {
		defer func() {
			if x := recover(); x != nil {
				s := fmt.Sprint(x)
				if !strings.Contains(s, "deadlock: main bubble goroutine has exited") {
					panic(x)
				}
			}
		}()
		synctest.Test(t, func(t *testing.T) {
			w := core.NewWorld(t, p.Seed, p.Trace, p.Stalls, !p.Free)
			w.Log.KeepAll = KeepLog
			w.Logf("plan %s", planDigest(p))
			func() {
				defer func() {
					// a panic on the driver goroutine is a harness bug unless an engine says otherwise
					if x := recover(); x != nil {
						w.Violate("harness-panic", "harness-panic", fmt.Sprint(x)+"\n"+string(debug.Stack()))
					}
				}()
				e.Exec(t, w, p, res)
			}()
			w.Shutdown()
			res.Digest = w.Log.Digest()
			res.Log = w.Log.All
			res.Steps = w.Steps
			res.SimUs = w.SimEnd.Microseconds()
			res.Violations = w.Violations
			for k, v := range w.Net.Fired {
				res.Fired[k] += v
			}
			if w.Sched.StallsFired > 0 {
				res.Fired["stall"] += w.Sched.StallsFired
			}
			for k, v := range w.Probes {
				res.Probes[k] += v
			}
			keys := make([]uint64, 0, len(w.States))
			for k := range w.States {
				keys = append(keys, k)
			}
			sort.Slice(keys, func(i, j int) bool { return keys[i] < keys[j] })
			if len(keys) > 256 {
				keys = keys[:256]
			}
			res.States = keys
			for k := range w.Grid {
				res.Grid = append(res.Grid, k)
			}
			sort.Slice(res.Grid, func(i, j int) bool { return res.Grid[i] < res.Grid[j] })
			if keepTrace || len(res.Violations) > 0 {
				res.Trace = w.Ch.Trace
				res.Tail = w.Log.Tail(120)
			}
		})
	}()
	return res
}

func planDigest(p *Plan) string {
	q := *p
	q.Trace = nil
	b, _ := json.Marshal(&q)
	h := sha256.Sum256(b)
	return hex.EncodeToString(h[:8])
}

// Init prepares the process for deterministic runs.
func Init() {
	runtime.GOMAXPROCS(1)
	debug.SetGCPercent(-1)
}

func WriteJSON(path string, v any) error {
	b, err := json.MarshalIndent(v, "", " ")
	if err != nil {
		return err
	}
	return os.WriteFile(path, b, 0o644)
}

func ReadPlan(path string) (*Plan, error) {
	b, err := os.ReadFile(path)
	if err != nil {
		return nil, err
	}
	var p Plan
	if err := json.Unmarshal(b, &p); err != nil {
		return nil, err
	}
	return &p, nil
}

var _ = time.Second
