#!/bin/bash
# usage: seed_formal.sh <seed-name> <PROP>   — applies /verif/seeded/<name>/patch.diff to /repo, runs ./check <PROP> quick, restores /repo.
NAME=$1; PROP=$2
cd /repo || exit 2
[ -z "$(git status --porcelain)" ] || { echo "repo dirty"; exit 2; }
git apply /verif/seeded/$NAME/patch.diff || exit 2
trap 'git -C /repo checkout -- .' EXIT
cd /verif && ./check $PROP quick > /verif/.work/formal_$NAME.log 2>&1; rc=$?
echo "$NAME $PROP exit=$rc $(grep -c '^VIOLATION' /verif/.work/formal_$NAME.log) VIOLATION lines; classes: $(grep '^violation class=' /verif/.work/formal_$NAME.log | sed 's/ runs=.*//; s/violation class=//' | tr '\n' ';' | cut -c1-300)"
