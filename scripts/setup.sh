#!/bin/bash
# Run once after a fresh restore, offline: builds the supervisor and warms the Go build cache
# (std for go1.26.8, the repository with -tags verif, the worker test binary, also with -race).
set -e
cd /verif
export GOFLAGS=-mod=mod GOPROXY=off GOSUMDB=off GOTOOLCHAIN=local
mkdir -p .work/bin evidence replays
(cd sim && go1.26.8 build -o ../.work/bin/supervisor ./cmd/supervisor)
(cd sim && go1.26.8 test -c -tags verif -o ../.work/bin/warm.test ./worker)
(cd sim && go1.26.8 test -c -race -tags verif -o ../.work/bin/warm.race.test ./worker)
rm -f .work/bin/warm.test .work/bin/warm.race.test
echo setup ok
