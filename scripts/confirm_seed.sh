#!/bin/bash
# usage: confirm_seed.sh <seed-name> <outdir> <pkgdir> <run-regex> [race]
# Confirms a seeded change in a scratch worktree of /repo (removed afterwards):
#   1. the patch applies and the tree builds
#   2. every test of the touched package that passes without the patch still passes with it (per-test, -json)
#   3. the demonstration passes without the patch and fails with it
NAME=$1; OUT=$2; PKG=$3; RUN=$4; RACE=$5
export GOFLAGS=-mod=mod GOPROXY=off GOSUMDB=off
W=/tmp/confirm.$$; WT=$W/wt; mkdir -p $W
git -C /repo worktree add -q --detach $WT HEAD || exit 2
trap 'git -C /repo worktree remove --force '$WT' 2>/dev/null; rm -rf '$W EXIT
cd $WT
passed() { go test -json -vet=off -count=1 -timeout 300s ./$PKG/ 2>/dev/null | python3 -c "
import sys,json
s=set()
for l in sys.stdin:
    try: e=json.loads(l)
    except: continue
    if e.get('Action')=='pass' and e.get('Test'): s.add(e['Test'])
print('\n'.join(sorted(s)))"; }
passed > $W/before.txt
git apply $OUT/patch.diff || { echo "$NAME: PATCH DOES NOT APPLY"; exit 1; }
go build ./liteclient/... ./liteapi/... ./wallet/... ./tonconnect/... ./tl/... ./tlb/... ./boc/... ./ton/... ./abi/... || { echo "$NAME: DOES NOT BUILD"; exit 1; }
passed > $W/after.txt
LOST=$(comm -23 $W/before.txt $W/after.txt | tr '\n' ' ')
cp $OUT/*_test.go $PKG/
RF=""; [ -n "$RACE" ] && RF="-race"
go test $RF -count=1 -timeout 400s -run "$RUN" ./$PKG/ > $W/demo_with.txt 2>&1; WITH=$?
git apply -R $OUT/patch.diff
go test $RF -count=1 -timeout 400s -run "$RUN" ./$PKG/ > $W/demo_without.txt 2>&1; WITHOUT=$?
echo "$NAME: existing tests passing before=$(wc -l < $W/before.txt) after=$(wc -l < $W/after.txt) lost=[${LOST}] demo_without_exit=$WITHOUT demo_with_exit=$WITH"
if [ "$WITHOUT" = 0 ] && [ "$WITH" != 0 ] && [ -z "$LOST" ]; then echo "$NAME: CONFIRMED"; else echo "$NAME: NOT CONFIRMED"; tail -5 $W/demo_without.txt; fi
