#!/bin/bash
# Runs the repository's own test suite with the verif guard OFF and compares the set of
# passing tests with the pinned baseline (/root/.vp/BASELINE.json: stable_pass).
# exit 0 iff every stable_pass test passes.
export GOFLAGS=-mod=mod GOPROXY=off GOSUMDB=off
OUT=${1:-/verif/.work/baseline.gotest.json}
mkdir -p "$(dirname "$OUT")"
(cd ${REPO_DIR:-/repo} && go test -json -vet=off -count=1 -timeout 25m ./... > "$OUT" 2>/dev/null)
python3 - "$OUT" <<'PY'
import json,sys
passed=set()
for l in open(sys.argv[1], errors='replace'):
    try: e=json.loads(l)
    except Exception: continue
    if e.get('Action')=='pass' and e.get('Test'):
        passed.add(e['Package']+'::'+e['Test'])
base=json.load(open('/root/.vp/BASELINE.json'))['stable_pass']
missing=[t for t in base if t not in passed]
print(f"baseline stable_pass={len(base)} passed_now={len(passed)} missing={len(missing)}")
for m in missing: print("MISSING", m)
sys.exit(1 if missing else 0)
PY
