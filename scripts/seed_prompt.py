#!/usr/bin/env python3
"""Writes the prompt given to an independent sub-agent for one seeded change: usage seed_prompt.py <PROP> <letter> <flavour-file> > prompt.
The sub-agent sees the property text, its scratch worktree and the one-line list of changes already tried - nothing of /verif."""
import json, sys, glob, os
prop, letter, flavour = sys.argv[1], sys.argv[2], open(sys.argv[3]).read().strip()
P = [json.loads(l) for l in open('/verif/properties.jsonl')]
p = [x for x in P if x['id'] == prop][0]
tried = []
for d in sorted(glob.glob(f'/verif/seeded/{prop}?/meta.json')):
    m = json.load(open(d))
    c = m.get('change', '')
    tried.append(c[:140].rsplit(' ', 1)[0] if len(c) > 140 else c)
name = f'{prop}{letter}'
print(f"""You are helping to evaluate a verification effort for the Go library tonkeeper/tongo (a Go SDK for the TON blockchain). Your job is to write ONE realistic, subtle bug ("seeded change") into the library that breaks a stated property, and to demonstrate it.

Your private scratch git worktree of the library is: /tmp/wt_{name}   (work ONLY inside it and inside /tmp/out_{name}; never touch /repo or /verif or any other directory; do not read /verif).
Environment for every shell command (the sandbox has no network):
  export GOFLAGS=-mod=mod GOPROXY=off GOSUMDB=off
The default `go` (1.23) builds the tree. Many existing tests need the internet and fail in this sandbox both with and without your change; that is expected - what matters is that every test that passes WITHOUT your change still passes WITH it.
Files guarded by the build tag `verif` (utils/simhook/*, */sim_on.go, */export_verif.go) are instrumentation: leave them alone and do not depend on them. `simMutex`/`simRWMutex` are aliases of sync.Mutex/sync.RWMutex in normal builds, and liteclient's `dialContext` is a plain net.Dialer.DialContext (see liteclient/sim_off.go, liteapi/pool/sim_off.go).

THE PROPERTY YOUR CHANGE MUST BREAK:
{p['id']}: {p['title']}

Statement: {p['statement']}

Quantifier: {p['quantifier']['text']}

Why the existing tests cannot settle it: {p['why_tests_cant']}

Code anchors: {json.dumps(p['anchors']['files'])}
Mechanisms: {json.dumps(p['anchors']['mechanism'])}

ALREADY TRIED BY OTHERS - your change must be DIFFERENT IN KIND from all of these: {'; '.join(tried)}.


WHAT TO PRODUCE
1. A change to the library's non-test source (small: typically 1-15 lines, in one or two places) such that
   - the tree still compiles (`go build ./liteclient/... ./liteapi/... ./wallet/... ./tonconnect/... ./tl/... ./tlb/... ./boc/... ./ton/... ./abi/...` and `go vet` of the touched packages),
   - every existing test that passed before still passes (run the tests of the touched packages and of packages that import them, before and after, and compare),
   - the property above no longer holds.
{flavour}
   Prefer a change that looks like a plausible refactoring, optimisation or "harmless cleanup" a reviewer could wave through. Do not add new exported API, do not add comments that give the bug away, do not touch tests or instrumentation files.
3. A demonstration: a Go test file (or small program) that FAILS (or panics / deadlocks with a timeout / is flagged by `go test -race`) with your change and PASSES without it. It may contain whatever scaffolding it needs (an in-process fake server on localhost loopback, a fake net.Conn, a scripted implementation of an interface, goroutines with explicit synchronisation to force the interleaving, etc.). Loopback TCP (127.0.0.1) works in the sandbox. Keep its runtime under ~60 s.

DELIVERABLES (write them into /tmp/out_{name}):
  - patch.diff : output of `git -C /tmp/wt_{name} diff` containing ONLY the library change (not the demonstration)
  - the demonstration file(s), plus demo.md saying exactly where to copy them in the tree and the exact command to run, the expected output WITH the change and WITHOUT it
  - notes.md : which sentence of the property breaks, what precisely is needed for it to manifest (interleaving / fault / sequence / input), why the existing tests do not notice, and which commands you ran to confirm (build, existing tests before/after, demo before/after) with their outcomes.
Before finishing: verify the demo really passes on the unmodified tree and fails with the change. IMPORTANT: never use `git stash` (it is shared between all worktrees and other agents work in parallel); use `git diff > /tmp/out_{name}/patch.diff; git apply -R /tmp/out_{name}/patch.diff; <run>; git apply /tmp/out_{name}/patch.diff` instead. Leave the worktree containing your change applied (uncommitted). Reply with a short summary (what you changed, how it manifests).""")
