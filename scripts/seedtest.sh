#!/bin/bash
# usage: seedtest.sh <PROP> <count> <patch.diff> [free]
# Applies a seeded change to a scratch worktree of /repo (never /repo itself), builds the worker against it
# (with -race when "free" is given), runs <count> plans and prints the violation classes. Worktree removed afterwards.
PROP=$1; COUNT=$2; PATCH=$(readlink -f "$3"); FREE=$4
export GOFLAGS=-mod=mod GOPROXY=off GOSUMDB=off GOTOOLCHAIN=local GODEBUG=randseednop=0,asyncpreemptoff=1
W=/tmp/seedtest.$$; WT=$W/wt
mkdir -p $W
git -C /repo worktree add -q --detach $WT HEAD || exit 2
trap 'git -C /repo worktree remove --force '$WT' 2>/dev/null; rm -rf '$W EXIT
cd $WT
git apply "$PATCH" || { echo "patch does not apply"; exit 2; }
(GOTOOLCHAIN= go build ./liteclient/... ./liteapi/... ./wallet/... ./tonconnect/... ./tl/... ./tlb/... ./boc/... ./ton/... ./abi/... ) || { echo "DOES NOT COMPILE"; exit 2; }
sed "s#=> /repo#=> $WT#" /verif/sim/go.mod > $W/go.mod; cp /verif/sim/go.sum $W/go.sum
RACE=""; FREEFLAG=""
if [ -n "$FREE" ]; then RACE="-race"; FREEFLAG="-verif.free"; export GORACE="halt_on_error=1 exitcode=66"; export GODEBUG=randseednop=0; fi
(cd /verif/sim && go1.26.8 test -modfile=$W/go.mod -c $RACE -tags verif -o $W/worker.test ./worker) || { echo "worker build failed"; exit 2; }
(cd $W && timeout 1800 ./worker.test -test.run '^TestWorker$' -test.timeout 0 -verif.mode=batch $FREEFLAG -verif.prop=$PROP -verif.tier=${VERIF_TIER:-quick} -verif.seed=${VERIF_SEED:-1} -verif.count=$COUNT -verif.journal=j.txt -verif.out=sum.json > out.log 2>&1; echo "worker exit=$?"; grep -m1 -A12 "WARNING: DATA RACE\|^panic:\|^fatal error" out.log | cut -c1-200
python3 - <<'PY'
import json,collections,os
if not os.path.exists('sum.json'):
    print("no summary (worker died)"); print(open('j.txt').read().split('\n')[-3:]); raise SystemExit
s=json.load(open('sum.json'))
c=collections.Counter()
first={}
for v in s.get('violations',[]):
    for x in v['result']['violations']:
        c[x['class']]+=1
        first.setdefault(x['class'],(v['plan']['index'],x['detail'][:300]))
print("runs",s['runs'],"violating runs",len(s.get('violations',[])))
for k,n in c.items(): print(" ",n,k,first[k])
PY
)
