#!/usr/bin/env python3
"""Writes /verif/MANIFEST.json. CLAIMED lists the properties whose check is built; everything else is not_applicable."""
import json, subprocess
CLAIMED = {
 "C11": dict(
  technique="deterministic simulation with fault injection (seeded search over byte-stream segmentations, delays, single corruptions, server-initiated drops with client reconnects, connect-context deadlines; real ADNL client vs independent spec server; free-running -race executions with concurrent senders)",
  text="Seeded exploration: tens of thousands of whole-connection executions per minute of the real liteclient handshake/framing code against an independently written ADNL server over a simulated TCP stream with seeded segmentation, latency and exactly one corruption per run; oracles: handshake interoperates, per-direction payload sequences are exact, nothing at or after an altered byte is ever delivered, length bounds 64..8 MiB. Exploration is the right level: the property quantifies over stream cuts, packet sequences and corruption positions, which is a fault/schedule space to sample, not a finite space to enumerate. Workloads, faults and oracles added after seven waves of independently written breaking changes are listed in DESIGN 5.7; which change each check catches is in DESIGN 13.1 and /verif/seeded/*/meta.json.",
  note="Trusted: the independent server's reading of the ADNL-over-TCP description (sim/adnl), golang.org/x/crypto/curve25519, SHA-256 collision freedom, Go's testing/synctest fake clock. Sampling, not proof. Recovery after a corrupted stream is not asserted (the property does not promise it).",
  ref="5.1"),
}
NA = {
 "C01": "pure function pair []Cell -> bytes -> []Cell; no schedule, clock, stream or fault for a simulator to own (DESIGN 6)",
 "C02": "hash/depth/level are pure functions of a cell DAG; memoisation is per object and single-goroutine (DESIGN 6)",
 "C03": "pure value -> cell -> value round trip over the type catalogue; no nondeterminism or I/O (DESIGN 6)",
 "C04": "bit-exactness of pure encoders; needs a reference encoder, not a simulator (DESIGN 6)",
 "C05": "dictionary codec; insertion orders are inputs, not interleavings (DESIGN 6)",
 "C06": "single-threaded cursor API on memory; operation sequences are inputs, nothing underneath can fail or reorder (DESIGN 6)",
 "C07": "DeserializeBoc([]byte) is a pure parser; truncations and substitutions are input mutations, not faults of a running system (DESIGN 6)",
 "C09": "correctness of two source-to-source compilers over schemas; nothing runs concurrently or in time (DESIGN 6)",
 "C10": "wire-format conformance of generated codecs is pure; incidental coverage by the simulated server's independent TL codec is not claimed (DESIGN 6)",
 "C14": "signing, verification and message limits are pure functions; the one clock contact (default expiry) is checked under C15 (DESIGN 6)",
 "C16": "equalities between hashes of decoded records and their source cells; pure (DESIGN 6)",
 "C17": "text/binary/JSON/TL/TL-B forms of addresses and shard arithmetic; pure (DESIGN 6)",
 "C18": "proof construction from a tree and a key; pure (DESIGN 6)",
 "C20": "JSON round trip of value types; pure (DESIGN 6)",
}
PENDING = {
 "C08": "simulation check (lying lite server + faulty io.Reader, DESIGN 5.3) not built yet in this commit; no claim until it is",
 "C12": "simulation check (concurrent callers vs adversarial server, DESIGN 5.2) not built yet in this commit; no claim until it is",
 "C13": "simulation check (pool over several simulated servers, DESIGN 5.4) not built yet in this commit; no claim until it is",
 "C15": "simulation check (wallet send pipeline vs scripted chain under a simulated clock, DESIGN 5.5) not built yet in this commit; no claim until it is",
 "C19": "simulation check (three-party timed protocol with adversarial channel, DESIGN 5.6) not built yet in this commit; no claim until it is",
}
import os, sys
sys.path.insert(0, os.path.dirname(__file__))
try:
    from manifest_extra import CLAIMED as EXTRA
    CLAIMED.update(EXTRA)
except ImportError:
    pass
hooks = subprocess.run(["git","-C","/repo","log","--format=%H %s","--grep=^verif hook"],capture_output=True,text=True).stdout.strip().split("\n")
m = {
 "version": 1,
 "setup_cmd": "cd /verif && GOFLAGS=-mod=mod GOPROXY=off GOSUMDB=off GOTOOLCHAIN=local ./scripts/setup.sh",
 "hooks": {
  "guard": "verif",
  "enable": "go1.26.8 test -c -tags verif (worker built by ./check from /repo's working tree; GOTOOLCHAIN=local GOFLAGS=-mod=mod GOPROXY=off)",
  "baseline_off_cmd": "/verif/scripts/baseline_off.sh",
  "source_commits": [h.split()[0] for h in hooks if h],
  "add_only": False,
 },
 "engines": [
  {"name":"netsim","path":"sim/core + sim/adnl + sim/props","serves_properties":[p for p in ["C11","C12","C13","C08"] if p in CLAIMED],"kind_free_text":"deterministic whole-stack simulation inside testing/synctest: seeded driver owns lock grants, TCP byte streams, lite servers, clock and randomness"},
 ],
 "checks": [],
 "not_applicable": [],
 "notes": "Technique family: deterministic simulation with fault injection. ./check <ID> quick|thorough|--replay <file>|selftest. exit 0 held / 1 VIOLATION / 2 harness trouble. Known findings: /verif/known_findings.json.",
}
if "C15" in CLAIMED: m["engines"].append({"name":"chainsim","path":"sim/props/c15.go","serves_properties":["C15"],"kind_free_text":"scripted blockchain party + simulated clock around the real wallet send pipeline"})
if "C19" in CLAIMED: m["engines"].append({"name":"authsim","path":"sim/props/c19.go","serves_properties":["C19"],"kind_free_text":"wallet / adversarial channel / server / executor history simulator with skewed clocks"})
for pid in sorted(CLAIMED):
    c = CLAIMED[pid]
    m["checks"].append({
      "property_id": pid,
      "quick_cmd": f"./check {pid} quick",
      "thorough_cmd": f"./check {pid} thorough",
      "evidence_file": f"/verif/evidence/{pid}.json",
      "replay_cmd_template": f"./check {pid} --replay {{path}}",
      "engine": c.get("engine","netsim"),
      "level_claimed": {"category":"exploration","text":c["text"],"design_ref":c["ref"]},
      "level_note": c["note"],
      "technique": c["technique"],
    })
for pid in sorted(list(NA)+[p for p in PENDING if p not in CLAIMED]):
    m["not_applicable"].append({"property_id":pid,"reason":NA.get(pid) or PENDING[pid]})
json.dump(m, open("/verif/MANIFEST.json","w"), indent=1)
print("claimed:", sorted(CLAIMED), "n/a:", len(m["not_applicable"]))
