CLAIMED = {
 "C15": dict(
  engine="chainsim",
  technique="deterministic simulation with fault injection (seeded histories of a scripted blockchain party under a simulated clock around the real wallet send pipeline)",
  text="Seeded exploration of the real SendV2/RawSendV2 pipeline of every wallet version with a send path against an executable chain model behind the wallet.blockchain interface: account state x stored seqno x response history (errors, latencies, seqno advancing never/early/late/after the window, failing polls) under a fake clock, hundreds of thousands of histories per minute. Oracles are exact where the harness sees everything (destination, state-init iff not deployed and hashing to the address, seqno inside the signed body, signature over the unsigned part, valid-until, nil <=> some successful poll saw the seqno advance) and deliberately free of the implementation's poll period. The address half (hand-laid data cells + independent cell hasher, API agreement, one-component variants differ) is input sampling inside the workload and labelled as such.",
  note="Trusted: wallet code cells from the library's table; boc.DeserializeBoc and bit-level cell accessors for reading the captured message; Go's testing/synctest clock. v1/v2 wallets take part on the address side only (their message building is panic(\"implement me\")); frozen accounts are not judged; HighLoadV2R2 has no seqno and refuses confirmation by design.",
  ref="5.5"),
}
