#!/bin/bash
# usage: mutest.sh <PROP> <count> <file-in-repo> <sed-expr>
# Development aid for sensitivity checks: applies a sed mutation to a scratch worktree of /repo (never /repo itself),
# builds the worker against it, runs <count> plans and prints the violation classes. The worktree is removed.
PROP=$1; COUNT=$2; FILE=$3; EXPR=$4
export GOFLAGS=-mod=mod GOPROXY=off GOSUMDB=off GOTOOLCHAIN=local GODEBUG=randseednop=0,asyncpreemptoff=1
W=/tmp/mutest.$$; WT=$W/wt
mkdir -p $W
git -C /repo worktree add -q --detach $WT HEAD || exit 2
trap 'git -C /repo worktree remove --force '$WT' 2>/dev/null; rm -rf '$W EXIT
cd $WT
sed -i "$EXPR" "$FILE"
if [ -z "$(git status --porcelain)" ]; then echo "mutation did not change anything"; exit 2; fi
git diff | grep '^[+-]' | grep -v '^+++\|^---'
(GOTOOLCHAIN= go build ./liteclient/... ./liteapi/... ./wallet/... ./tonconnect/... ./tl/... ./tlb/... ./boc/... ./ton/... ./abi/... ) || { echo "DOES NOT COMPILE"; exit 2; }
sed "s#=> /repo#=> $WT#" /verif/sim/go.mod > $W/go.mod; cp /verif/sim/go.sum $W/go.sum
(cd /verif/sim && go1.26.8 test -modfile=$W/go.mod -c -tags verif -o $W/worker.test ./worker) || { echo "worker build failed"; exit 2; }
(cd $W && timeout 900 ./worker.test -test.run '^TestWorker$' -test.timeout 0 -verif.mode=batch -verif.prop=$PROP -verif.seed=${VERIF_SEED:-1} -verif.count=$COUNT -verif.journal=j.txt -verif.out=sum.json > out.log 2>&1; echo "worker exit=$?"; grep -v "INFO\|reconnecting\|Cant close" out.log | tail -3 | cut -c1-300
python3 - <<'PY'
import json,collections,os
if not os.path.exists('sum.json'):
    print("no summary (crash?)"); print(open('j.txt').read().split('\n')[-3:]); raise SystemExit
s=json.load(open('sum.json'))
c=collections.Counter()
first={}
for v in s.get('violations',[]):
    for x in v['result']['violations']:
        c[x['class']]+=1
        first.setdefault(x['class'],(v['plan']['index'],x['detail'][:200]))
print("runs",s['runs'],"violating runs",len(s.get('violations',[])))
for k,n in c.items(): print(" ",n,k,first[k])
PY
)
