#!/bin/bash
# usage: mutest.sh <PROP> <count> <file-in-repo> <sed-expr> — apply a sed mutation to /repo, run the worker batch, revert.
# Development aid for sensitivity checks (never leaves /repo modified).
PROP=$1; COUNT=$2; FILE=$3; EXPR=$4
export GOFLAGS=-mod=mod GOPROXY=off GOSUMDB=off GOTOOLCHAIN=local GODEBUG=randseednop=0,asyncpreemptoff=1
cd /repo || exit 2
if [ -n "$(git status --porcelain)" ]; then echo "repo dirty"; exit 2; fi
sed -i "$EXPR" "$FILE"
if [ -z "$(git status --porcelain)" ]; then echo "mutation did not change anything"; exit 2; fi
git diff | grep '^[+-]' | grep -v '^+++\|^---'
trap 'git -C /repo checkout -- .' EXIT
(go build ./liteclient/... ./liteapi/... ./wallet/... ./tonconnect/... ./tl/... ./tlb/... ./boc/... ./ton/... ./abi/... ) || { echo "DOES NOT COMPILE"; exit 2; }
W=/tmp/mutest.$$; mkdir -p $W
(cd /verif/sim && go1.26.8 test -c -tags verif -o $W/worker.test ./worker) || { echo "worker build failed"; exit 2; }
(cd $W && timeout 600 ./worker.test -test.run '^TestWorker$' -test.timeout 0 -verif.mode=batch -verif.prop=$PROP -verif.seed=${VERIF_SEED:-1} -verif.count=$COUNT -verif.journal=j.txt -verif.out=sum.json > out.log 2>&1; echo "worker exit=$?"; tail -3 out.log | cut -c1-300
python3 - <<'PY'
import json,collections,os
if not os.path.exists('sum.json'):
    print("no summary (crash?)"); print(open('j.txt').read().split('\n')[-3:]); raise SystemExit
s=json.load(open('sum.json'))
c=collections.Counter()
first={}
for v in s.get('violations',[]):
    for x in v['result']['violations']:
        c[x['class']]+=1
        first.setdefault(x['class'],(v['plan']['index'],x['detail'][:200]))
print("runs",s['runs'],"violating runs",len(s.get('violations',[])))
for k,n in c.items(): print(" ",n,k,first[k])
PY
)
rm -rf $W
